"""Workload corpus: which YANG sets are generated (by the copy's own generator) into Go
packages for the simulation harness. Paths are relative to the scratch copy of the
repository unless absolute."""
import os

VERIF = os.path.dirname(os.path.dirname(os.path.abspath(__file__)))
S = os.path.join(VERIF, "schemas")

COMMON = ["-generate_fakeroot", "-fakeroot_name=device", "-generate_rename", "-generate_append", "-generate_getters",
          "-generate_delete", "-generate_leaf_getters", "-generate_populate_defaults", "-annotations",
          "-shorten_enum_leaf_names", "-typedef_enum_with_defmod", "-enum_suffix_for_simple_union_enums"]

CORPUS = [
    # compressed, simple unions, ordered maps
    {"name": "voc", "yang": [S + "/verif-oc.yang"], "path": [S], "compressed": True, "tags": ["ordered", "simpleunion"],
     "flags": COMMON + ["-compress_paths", "-ignore_shadow_schema_paths", "-generate_simple_unions", "-yangpresence"]},
    # uncompressed
    {"name": "vun", "yang": [S + "/verif-oc.yang"], "path": [S], "compressed": False, "tags": ["ordered", "simpleunion"],
     "flags": COMMON + ["-generate_simple_unions", "-yangpresence"]},
    # compressed, wrapper unions, ordered lists as plain maps
    {"name": "vwr", "yang": [S + "/verif-oc.yang"], "path": [S], "compressed": True, "tags": ["wrapperunion"],
     "flags": COMMON + ["-compress_paths", "-ignore_shadow_schema_paths", "-generate_ordered_maps=false"]},
    # ordered lists keyed by unions and enumerations: targets of the ordered-map check only (tag c15only)
    {"name": "vok", "yang": [S + "/verif-ordkeys.yang"], "path": [S], "compressed": True, "tags": ["ordered", "simpleunion", "c15only"],
     "flags": COMMON + ["-compress_paths", "-ignore_shadow_schema_paths", "-generate_simple_unions", "-yangpresence"]},
    # a container shared by two ordered lists: trees of the Diff check only (tag c03only)
    {"name": "vsc", "yang": [S + "/verif-sharedcont.yang"], "path": [S], "compressed": True, "tags": ["ordered", "simpleunion", "c03only", "sharedcont"],
     "flags": COMMON + ["-compress_paths", "-ignore_shadow_schema_paths", "-generate_simple_unions", "-yangpresence"]},
    # the repository's own integration schema, regenerated with the copy's generator
    {"name": "cts", "yang": ["integration_tests/schemaops/yang/ctestschema.yang", "integration_tests/schemaops/yang/ctestschema-rootmod.yang"],
     "path": ["integration_tests/schemaops/yang"], "compressed": True, "tags": ["ordered", "simpleunion"],
     "flags": COMMON + ["-compress_paths", "-ignore_shadow_schema_paths", "-generate_simple_unions"]},
]
