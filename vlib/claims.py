"""The claimed properties and the level claimed for each (source of MANIFEST.json)."""


def register(check, TIERB_NOTE):
    check("C15", "exploration",
          "Seeded search over operation histories on every generated ordered map of the corpus (single-key, multi-key, nested; direct methods and "
          "parent helpers), each call checked against an insertion-ordered unique-key reference model, with rejected operations (duplicate / nil key, "
          "nil element, nil receiver) injected as faults that must leave the map unchanged, returned slices mutated to prove they are copies, and "
          "slices returned earlier kept to see that later calls leave them alone, and "
          "order compared after JSON, gNMI and DeepCopy round trips; ordered lists keyed by unions and enumerations (zero-valued union keys included) come from a "
          "package of their own. The ordered-map code is regenerated from YANG by the working tree's own generator "
          "at check time, so a change to the templates is what gets tested. Exploration is the right level: the property quantifies over histories and "
          "the state space per map is small enough that thousands of short histories revisit every transition many times.",
          "DESIGN.md §5 (Tier B, C15)", TIERB_NOTE,
          "deterministic simulation: seeded operation histories vs executable reference model, rejected-operation injection, ddmin-minimised replay")
    check("C34", "exploration",
          "Seeded search over helper-call histories on every keyed list of the corpus (string, uint32, int64, enum, identityref, union, bool, multi-key "
          "incl. enum+union+int8 keys; plain-map form of ordered lists too), each call checked against a key-tuple -> entry-identity map model: "
          "New/Append reject duplicates (Append also nil keys) without changing the map, GetOrCreate idempotent, Get never creates, Rename moves the "
          "entry and rewrites its key leaves (renames to keys with an unset enum / union part are injected: refused or obeyed, the map invariant must survive); after every call every entry's key leaves are compared with its map key by the harness's own walker, and the map an earlier GetOrCreate<List>Map call returned must still be the list's map. "
          "Helpers are regenerated from YANG by the working tree's generator at check time.",
          "DESIGN.md §5 (Tier B, C34)", TIERB_NOTE,
          "deterministic simulation: seeded operation histories vs executable reference model, rejected-operation injection, ddmin-minimised replay")
    check("C12", "exploration",
          "Seeded search over DeleteNode histories on seeded trees of four generated schemas (compressed, uncompressed, wrapper-union, the repository's "
          "integration schema): after every call the leaf set computed by the harness's own walker must equal 'previous set minus everything at or below p' "
          "(through every addressable path of a field, shadow paths with and without PreferShadowPath), GetNode must find nothing there, emptied containers "
          "and list entries on the way must be gone, and a repeated delete must change nothing. Failing deletes are injected (garbage, keyless-list paths) "
          "and must still keep every leaf outside p. Histories matter: the finding fixed in /repo needed delete(key leaf) followed by delete(entry).",
          "DESIGN.md §5 (Tier B, C12)", TIERB_NOTE,
          "deterministic simulation: seeded operation histories vs path->value reference model, failing-operation injection, ddmin-minimised replay")
    check("C10", "exploration",
          "Seeded search over SetNode(InitMissingElements) histories: targets drawn by random descent of the schema through every list key type (existing and "
          "new entries), payloads built by the harness's own TypedValue / RFC 7951 encoders from type-correct generated values; after each successful set the "
          "walker's leaf set may differ from the previous one only in the target leaf and the key leaves of entries created on the way, and GetNode must return "
          "exactly one node holding the value in the leaf's Go type. Ill-typed payloads, unknown paths, missing keys and int_vals beyond the leaf's width (with "
          "TolerateJSONInconsistencies) are injected as failing operations, and so are uint_vals for signed leaves (may be refused; if accepted the leaf must hold the value sent); in a third of the runs equal-valued leaves of the tree share one pointer "
          "and leaf-lists of one type one backing array; paths of nodes GetNode returned are kept and must not change. Every execution starts from a simulated process restart.",
          "DESIGN.md §5 (Tier B, C10)", TIERB_NOTE,
          "deterministic simulation: seeded operation histories vs path->value reference model, failing-operation injection, ddmin-minimised replay")
    check("C13", "exploration",
          "Seeded search over histories of SetRequests and atomic Notifications generated model first (the generator fixes the effects - delete subtree, "
          "replace = delete then write, update = write, ordered-list entries appended in arrival order - and encodes them with the harness's own scalar / "
          "RFC 7951 encoders, optionally under a common prefix, with overlapping steps inside one request); the recorded effects are applied to a "
          "path -> value reference model in gNMI order and compared (leaf set and ordered-list order) with the harness's walk of the tree after "
          "UnmarshalSetRequest / UnmarshalNotifications. Atomic notifications include empty ones (the subtree at the prefix is replaced by nothing). "
          "The same container or list entry may be updated twice with different payloads; a quarter of the requests carry IgnoreExtraFields, which must not outlive the call and - having no unknown member to ignore - must give the same outcome and tree as the request without it when both are accompanied by PreferShadowPath (applied to two copies). Requests with one undecodable update, or with a prefix whose target / origin "
          "contradicts a path's, are injected as failing operations: they must be rejected.",
          "DESIGN.md §5 (Tier B, C13)", TIERB_NOTE,
          "deterministic simulation: seeded request histories vs gNMI reference model (model-first generation), failing-request injection, ddmin-minimised replay")
    check("C03", "exploration",
          "Histories of tree versions v0..vn on a primary, with a replica that is changed only by applying the notifications Diff / DiffWithAtomic emit for "
          "(vi, vi+1) through ytypes.UnmarshalNotifications. The order of deletes and updates inside each notification comes from Go map iteration inside "
          "ygot; the simulator's map-order seam picks it from a fresh seeded permutation stream per step, so the replica sees delivery orders that a real "
          "process produces rarely or never (e.g. a key leaf deleted before its siblings), and only orders Diff itself can emit. After every step: replica == "
          "vi+1 as leaf sets (and ordered-list order for DiffWithAtomic), every update/delete sound and minimal against the harness's own models, Diff(a,a) "
          "empty, IgnoreAdditions omits exactly the new leaves. Options MapToSinglePath / PreferShadowPath / IgnoreAdditions are swarm-drawn per step. In a third "
          "of the steps the two versions share memory the way path-copied (copy-on-write) trees do - equal subtrees are one object, a leaf-list or binary value "
          "that grew or shrank at its end starts at its predecessor's address - which changes no content and must change no answer. Notifications of earlier steps are kept and must still read the same after later Diff calls; a "
          "third of the steps deliver their notifications to a second replica as well; in the fault configuration some steps first call Diff on a version "
          "that is not schema-conforming, and the call after it is the one that is checked. One run in twelve uses a schema in which two ordered lists and a leaf share one container "
          "(known finding C03:shared-container:sibling-lost, recognised narrowly). Every execution starts from a simulated process restart.",
          "DESIGN.md §5 (C03)",
          "Sampling of histories and of delivery orders, not enumeration. Trusted: the harness's walker, its deep clone, the instrumenter's rewrite of map iteration. "
          "Excluded with reason: keyless lists and ordered lists nested in ordered lists (documented as unsupported by ygot).",
          "deterministic simulation: version histories on primary/replica with seeded map-iteration (delivery-order) schedules, leaf-set reference model, ddmin-minimised replay")
    check("C04", "exploration",
          "Seeded trees (unkeyed lists, binary values, simple and wrapper unions incl. binary members, keyed and ordered lists all populated, some keyed and "
          "ordered lists empty but not nil) are put through DeepCopy, or two non-conflicting projections through MergeStructs (plain, MergeEmptyMaps, "
          "MergeOverwriteExistingFields); then a seeded history of in-place writes hits one side at mutable locations enumerated by "
          "reflection (pointer targets, map entries deleted and inserted, ordered-map appends, slice elements, bytes of binary values, elements of unkeyed "
          "lists, wrapper-union structs, ordered-map keys/valueMap, bytes appended to binary values) and after every write the deep fingerprint of every other side must be unchanged; DeepCopy's result is also compared with its "
          "input (leaf set, ordered-list order, unkeyed-list length). Both aliasing defects this found are repaired in /repo.",
          "DESIGN.md §5 (Tier B, C04)", TIERB_NOTE,
          "deterministic simulation: seeded mutation histories on copy/original pairs with deep-fingerprint frame oracle, ddmin-minimised replay")
    check("C21", "exploration",
          "Deterministic simulation of concurrent callers: 2-4 (thorough: up to 6) tasks run as real goroutines under a seeded cooperative scheduler that "
          "decides every switch (yield points at every function entry, store and lock operation of ygot's runtime packages and of the generated code; "
          "and in front of every sync/atomic, sync.Map, sync.Once ... operation; sync.Pool replaced by a deterministic pool shared by all tasks; held locks tracked (a lock "
          "left held when all tasks have returned, or tasks that only wait for locks, are violations); random-walk preemption with swarm-drawn mean gap, starvation windows, lock-biased "
          "preemption right after a mutex is acquired, regexp-cache evictions as buggify, a simulated process restart - package-level state of the runtime "
          "packages re-initialised - before every interleaved phase, failing operations mixed in). Workloads: read-only operations on one shared tree (Validate, EmitJSON, Marshal7951, "
          "ConstructIETFJSON, TogNMINotifications with shared prefix slices, GetNode with shared path messages, Diff, DiffWithAtomic, DeepCopy, EncodeTypedValue, "
          "each with its option variants) and Unmarshal (bytes and one shared decoded JSON value) / SetNode (scalar and JSON-IETF payloads at leaf, container "
          "and list-entry paths) / UnmarshalSetRequest (requests generated as for C13, prefixes with spare capacity, some wire-decoded, applied with one of four option sets) "
          "- with what a program shares besides trees: one set of EmitJSON option objects used by every reader, decimal64 values sent as float_val, a Diff of the tree against itself "
          "whose result every caller stamps with timestamp and prefix as the documentation asks - "
          "histories into private trees sharing one schema and one pool of input messages. Oracles: (1) the race detector, with the scheduler's hand-offs and - "
          "in race-mode runs - all library-internal synchronisation hidden from it, so that two tasks are ordered only by ygot's own mutexes and the verdict "
          "does not depend on accidental ordering through sync.Pool etc.; reports are attributed to ygot by their innermost non-runtime frame; (2) every task's "
          "results equal those of running its list alone on equal state; (3) termination (no all-blocked state). A violation is minimised over tasks, operations "
          "and preemptions by replaying candidates in fresh processes. The defect this found (SetNode rewriting the caller's TypedValue) is repaired in /repo.",
          "DESIGN.md §5 (C21)",
          "Sampling of schedules, not enumeration. Trusted: Go's race detector (bounded per-word access history), the instrumenter, the cooperative scheduler and "
          "its hidden hand-offs. Preemption inside un-instrumented dependencies is not explored. If the code under test starts using synchronisation other than "
          "sync.Mutex/RWMutex the check falls back to leaving library synchronisation visible (less sensitive, never unsound).",
          "deterministic simulation: seeded cooperative scheduler over real goroutines, race detector with hidden scheduler/library synchronisation, solo-vs-interleaved result comparison, fresh-process ddmin over tasks/ops/preemptions")
    check("C25", "exploration",
          "The real generator and proto_generator binaries, built from an instrumented copy of the working tree (ygen, gogen, protogen, ypathgen, genutil, "
          "ygot, util and a vendored goyang), are run - one fresh OS process per generation - on (schema set, tool, flag set) combinations drawn from the "
          "repository's YANG corpus, the harness's OpenConfig-style workload schema and a seeded random YANG module generator (clashing enum / identity / "
          "typedef names, unions of enumerations, multi-key and ordered lists, groupings used several times). The schedule of a run is the order in which "
          "every map-iteration site yields its keys: canonical (reference), all sites reversed, seeded permutations, the runtime's own order twice, and every "
          "site that sees two or more keys reversed alone (quick: a sample of 10 per combination; thorough: all of them, i.e. an exhaustive single-site "
          "sweep). Oracle: all output files byte-identical to the reference. A violation is delta-debugged to the smallest set of `range` statements whose "
          "order matters. Process state is the second schedule dimension: the generators are also run as libraries in seeded sequences of 2-4 generations "
          "inside one process, mixing configuration variants (package names and suffixes, compression, union style, split-by-module, nested messages) "
          "and map orders, and every generation must equal what the same configuration produces as the only generation of a fresh process; a failing "
          "sequence is shortened while the same class of deviation persists; all results of a sequence are kept and rendered again at its end (a result that then reads differently "
          "aliases memory a later generation reused). The canonical plan is executed twice (identical plan, identical bytes). Every deviation is re-executed with the identical plan before it is reported. "
          "Environment faults, once per combination: generation into an output directory pre-filled with longer files of the same names, and generation by a copy of the binary at another location; both must leave the reference bytes.",
          "DESIGN.md §5 (C25)",
          "Sampling of permutations and of the flag lattice; the only sources of nondeterminism in these packages are map iteration order and process state "
          "(no goroutines, no clock), both of which the simulator controls. Trusted: the instrumenter's rewrite (every order it produces is one the Go "
          "specification allows). Sites that never see two keys on the corpus are listed in the evidence as a coverage gap.",
          "deterministic simulation: map-iteration-order schedules over the real generator processes (seeded permutations, reversal, exhaustive single-site sweep), byte-equality oracle, ddmin over iteration sites")
