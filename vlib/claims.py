"""The claimed properties and the level claimed for each (source of MANIFEST.json)."""


def register(check, TIERB_NOTE):
    pass
