import json
import os
import subprocess
import sys

from . import build


def main(argv):
    if not argv:
        print(__doc__ or "usage: verifctl <cmd>")
        return 2
    cmd = argv[0]
    try:
        if cmd == "setup":
            build.setup()
            return 0
        if cmd == "clean":
            build.clean()
            return 0
        if cmd == "smoke":
            info = build.build_sim(argv[1] if len(argv) > 1 else "sim")
            p = subprocess.run([info["bin"], "-smoke"], stdout=subprocess.PIPE, text=True)
            bad = 0
            for line in p.stdout.splitlines():
                d = json.loads(line)
                if d.get("problems") or not d.get("clone_same") or not d.get("orig_untouched"):
                    bad += 1
                    print("BAD", line)
            print(p.stdout[-3000:])
            print("smoke rc", p.returncode, "bad", bad)
            return 0 if p.returncode == 0 and bad == 0 else 2
        if cmd in ("check", "replay", "selftest"):
            from . import checks
            return checks.main(cmd, argv[1:])
    except build.BuildError as e:
        print("[verif] BUILD/INFRA ERROR (exit 2, not a violation):\n%s" % e, file=sys.stderr)
        return 2
    except Exception:  # harness trouble is never a verdict about the code under test
        import traceback
        traceback.print_exc()
        print("[verif] HARNESS ERROR (exit 2, not a violation)", file=sys.stderr)
        return 2
    print("unknown command", cmd, file=sys.stderr)
    return 2
