"""Regenerates MANIFEST.json from the tables below (run: python3 -m vlib.manifest_gen)."""
import json
import os

VERIF = os.path.dirname(os.path.dirname(os.path.abspath(__file__)))

NA = {
    "C01": "Pure composition Unmarshal∘Marshal over all trees and flags: a function of its input, no schedule, clock, fault or history in the statement. The byte-determinism of rendering is exercised inside C21's solo-vs-concurrent comparison.",
    "C02": "Pure composition UnmarshalNotifications∘TogNMINotifications over all trees: input-quantified only; nothing but the input chooses an order.",
    "C05": "The merge outcome is a function of the pair (a, b); commutativity and the conflict boundary are input-quantified.",
    "C06": "Scalar validators are pure predicates on (restriction, value).",
    "C07": "Validate accept/reject is a pure predicate on the tree; its concurrent use is decided under C21.",
    "C08": "String encoding/decoding of gNMI paths: pure functions of the input.",
    "C09": "Path-relation functions are pure, and the quantifier asks for exhaustive enumeration of a bounded alphabet, which is model checking, not this technique.",
    "C11": "A before/after frame condition on single calls, decided completely by a sequential snapshot; its concurrent consequence (a write to a shared input is a data race) is decided under C21 for the objects C21 declares shared.",
    "C14": "PruneEmptyBranches' result and idempotence are functions of the input tree.",
    "C16": "Key-string round trip per key type and value: pure.",
    "C17": "Enum name tables: a static property of generated code plus pure functions.",
    "C18": "Decoder accept/reject per (leaf type, payload): pure.",
    "C19": "Encoding of each value: pure.",
    "C20": "Panic-freedom over arbitrary bytes/messages is a fuzzing target by its own quantifier; corrupting a stored document is input mutation, not a fault the code meets while running.",
    "C22": "DiffSetRequest laws are algebraic identities over request pairs: pure.",
    "C23": "Classification of single-leaf edits: pure.",
    "C24": "protomap round trip over messages: pure.",
    "C26": "Generated code compiles and matches its schema: a function of (schema, flags); the determinism of the same pipeline is C25.",
    "C27": "Embedded schema vs goyang compilation: a pure comparison per (schema, flags).",
    "C28": "Well-formedness of generated protos: pure per (schema, options); 'stable across runs' is the protogen leg of C25.",
    "C29": "Path-struct resolution per node and key values: pure.",
    "C30": "Leafref validation outcome is a predicate on the tree.",
    "C31": "Merge-on-unmarshal semantics: a function of (existing tree, document, option).",
    "C32": "PruneConfigFalse result: a function of (schema, tree).",
    "C33": "PopulateDefaults result: a function of the tree.",
}

TIERB_NOTE = ("Seeded search over operation histories, not enumeration: a clean batch is evidence over the histories visited. "
              "This surface has no goroutines, clocks or I/O, so the simulator contributes the seeded history scheduler, "
              "failing/rejected-operation injection, the map-iteration-order seam, minimisation and exact replay — no interleaving or I/O fault. "
              "Trusted: the harness's own tree walker and reference model, go reflection, the instrumenter's rewrite of map iteration.")

CHECKS = {}


def check(pid, category, text, design_ref, note, technique, thorough=True):
    CHECKS[pid] = {
        "property_id": pid,
        "quick_cmd": "./verifctl check %s --tier quick" % pid,
        "evidence_file": "evidence/%s.json" % pid,
        "replay_cmd_template": "./verifctl replay {path}",
        "engine": "verifsim",
        "level_claimed": {"category": category, "text": text, "design_ref": design_ref},
        "level_note": note,
        "technique": technique,
    }
    if thorough:
        CHECKS[pid]["thorough_cmd"] = "./verifctl check %s --tier thorough" % pid


def manifest():
    from . import claims
    claims.register(check, TIERB_NOTE)
    return {
        "version": 1,
        "setup_cmd": "./verifctl setup",
        "hooks": {
            "guard": "verif",
            "enable": "no hook lives in /repo: every seam (map-iteration order, yield points, lock shims, cache eviction) is inserted by /verif/bin/instr into a scratch copy of /repo's working tree at check time",
            "baseline_off_cmd": "cd /repo && go test -mod=mod -vet=off -count=1 -timeout 25m ./...",
            "source_commits": [],
            "add_only": True,
        },
        "engines": [{
            "name": "verifsim",
            "path": "verifctl",
            "serves_properties": sorted(CHECKS),
            "kind_free_text": "deterministic simulation: seeded cooperative scheduler over real goroutines with race-detector oracle, map-iteration-order seam, seeded operation histories against executable reference models, delta-debugging minimiser, exact replay",
        }],
        "checks": [CHECKS[k] for k in sorted(CHECKS)],
        "notes": "See DESIGN.md. Properties quantified only over inputs/configurations are pure functions and are listed under not_applicable rather than being dressed up as simulation.",
        "not_applicable": [{"property_id": k, "reason": NA[k]} for k in sorted(NA) if k not in CHECKS],
    }


if __name__ == "__main__":
    m = manifest()
    with open(os.path.join(VERIF, "MANIFEST.json"), "w") as f:
        json.dump(m, f, indent=1, ensure_ascii=False)
        f.write("\n")
    print("checks:", [c["property_id"] for c in m["checks"]], "n/a:", len(m["not_applicable"]))
