"""Check orchestration: runs the harness binaries over seed ranges in worker processes,
aggregates their JSON-lines output, verifies and files replays, matches known findings,
writes evidence, and decides the exit code.

Exit codes: 0 property held on everything explored (KNOWN-FINDING lines allowed),
1 violation (a VIOLATION line was printed), 2 infrastructure trouble (never a VIOLATION).
"""
import argparse
import json
import os
import shutil
import subprocess
import sys
import tempfile
import time

from . import build

VERIF = build.VERIF
REPLAYS = os.environ.get("VERIF_REPLAY_DIR") or os.path.join(VERIF, "replays")
NCPU = os.cpu_count() or 4


def log(*a):
    print("[verif]", *a, file=sys.stderr, flush=True)


# ----------------------------------------------------------------------------- known findings

def load_known():
    p = os.path.join(VERIF, "known_findings.json")
    if not os.path.exists(p):
        return []
    return json.load(open(p)).get("findings", [])


def match_known(prop, signature):
    for f in load_known():
        if f.get("property") == prop and f.get("status") == "known" and f.get("signature") == signature:
            return f
    return None


# ----------------------------------------------------------------------------- generic hsim runner

PROPS = {}


def prop(pid, **kw):
    PROPS[pid] = kw


# quick_runs: seeds explored by the quick tier; thorough_s: wall-clock budget of the thorough tier
prop("C15", kind="sim", quick_runs=3000, thorough_s=600,
     rule="one run = one seeded history of 3-12 (thorough: up to 30) calls on one generated ordered map (target list, key pool of 3-4 tuples, "
          "operation mix and fault mode all drawn from the seed), checked after every call against a slice+map reference model; "
          "distinct = distinct (target, full operation/result trace) hashes; non-trivial = the history changed the map at least once",
     fault_kinds=["duplicate_key", "nil_key", "nil_element", "nil_receiver", "delete_absent", "json_merge_into_existing_list_refused"],
     probes=["state_changes", "two_or_more_entries", "delete_not_last", "returned_keys_mutated", "returned_values_mutated",
             "roundtrip_with_two_or_more", "map_created_by_getorcreate", "replica_synced_by_diff", "moved_to_end"])


prop("C34", kind="sim", quick_runs=3000, thorough_s=600,
     rule="one run = one seeded history of 3-12 (thorough: up to 30) generated-helper calls (New/GetOrCreate/Get/Append/Delete/Rename) on one keyed list "
          "(target list over every key type of the corpus, key pool of 2-4 tuples, operation mix and fault mode drawn from the seed), checked after "
          "every call against a key-tuple -> element-identity map model; distinct = distinct (target, operation/result trace) hashes; "
          "non-trivial = the history changed the list at least once",
     fault_kinds=["duplicate_key", "nil_key", "rename_onto_existing", "rename_from_absent", "rename_to_unset_key_part", "delete_absent", "nil_receiver"],
     probes=["state_changes", "renames", "getorcreate_existing"])


prop("C12", kind="sim", quick_runs=4000, thorough_s=600,
     rule="one run = one seeded tree (schema, shape and size swarm-drawn) and a history of 1-6 (thorough: up to 14) DeleteNode calls at container, list, "
          "list-entry, leaf, leaf-list, ordered-list, shadow, absent-key, absent-sibling and (fault configuration) keyless-list and garbage paths, "
          "some repeated, some with PreferShadowPath; after each call the leaf set computed by the harness's walker is compared with the model "
          "'remove everything at or below p, keep everything else', GetNode is queried, and emptied ancestors must be pruned; "
          "distinct = distinct (package, per-step outcome trace) hashes; non-trivial = at least one delete removed data",
     fault_kinds=["failing_delete"],
     probes=["delete_with_data", "delete_without_data", "deleted_twice", "path_kind:leaf", "path_kind:interior", "path_kind:absent-key",
             "path_kind:absent-sibling", "path_kind:shadow", "path_kind:list-nokey", "path_kind:garbage"])


prop("C10", kind="sim", quick_runs=4000, thorough_s=600,
     rule="one run = one seeded tree and a history of 1-6 (thorough: up to 16) SetNode(InitMissingElements) calls at leaf / leaf-list paths drawn by a random "
          "descent of the schema (existing or freshly keyed list entries on the way, every key type), payload a scalar TypedValue or JSON-IETF value built "
          "by the harness's own encoders from a type-correct generated value; after each successful set the walker's leaf set must differ from the previous "
          "one only in the target leaf and in key leaves of entries created on the way, and GetNode must return exactly one node holding the value in the "
          "leaf's Go type; distinct = distinct (package, per-step outcome trace) hashes; non-trivial = at least one set succeeded",
     fault_kinds=["failing_set", "bad:illtyped", "bad:unknown-path", "bad:missing-key", "bad:int-overflow", "bad:uint-for-signed"],
     probes=["set_ok", "set_ok:tv", "set_ok:json", "set_created_entry", "set_ok:json_tolerance", "set_ok:leaf-list", "set_ok:shadow-path",
             "set_ok:keyclass:stringkey", "set_ok:keyclass:uint32key", "set_ok:keyclass:int64key", "set_ok:keyclass:enumkey", "set_ok:keyclass:unionkey",
             "set_ok:keyclass:boolkey", "set_ok:keyclass:multikey",
             "set_ok:ykind:string", "set_ok:ykind:uint8", "set_ok:ykind:uint16", "set_ok:ykind:uint32", "set_ok:ykind:uint64", "set_ok:ykind:int8", "set_ok:ykind:int16",
             "set_ok:ykind:int32", "set_ok:ykind:int64", "set_ok:ykind:boolean", "set_ok:ykind:decimal64", "set_ok:ykind:binary", "set_ok:ykind:empty",
             "set_ok:ykind:enumeration", "set_ok:ykind:identityref", "set_ok:ykind:union", "set_ok:ykind:leafref"],
     assumptions=["value domain restricted to type-correct payloads whose decoding is unambiguous by the schema; key leaves themselves are never set targets "
                  "(setting a key leaf to a value other than its entry's key makes the entry unreachable by that path, which the property does not cover)"])


prop("C13", kind="sim", quick_runs=4000, thorough_s=600,
     rule="one run = one seeded tree and a history of 1-4 (thorough: up to 10) SetRequests / atomic Notifications generated model first: each request is a "
          "list of effects (delete subtree; replace = delete then write leaf assignments; update = write leaf assignments; ordered-list entries appended in "
          "arrival order) over leaf, leaf-list, container, list-entry and ordered-list targets, encoded by the harness's own scalar / RFC 7951 encoders, "
          "optionally under a common prefix; the recorded effects are applied to the path -> value reference model in gNMI order and compared with the "
          "walker's view of the tree (leaf set and ordered-list order); distinct = distinct (package, outcome trace) hashes; non-trivial = some request changed the tree",
     fault_kinds=["bad_request", "failing_request"],
     probes=["state_changes", "multi_step_request", "overlapping_steps", "ordered_list_present", "same_path_written_twice", "effect:delete:leaf", "effect:delete:interior",
             "effect:replace:leaf", "effect:replace:leaf-list", "effect:replace:container", "effect:replace:list-entry", "effect:replace:ordered-list-entry",
             "effect:update:leaf", "effect:update:leaf-list", "effect:update:container", "effect:update:list-entry", "effect:update:ordered-list-entry",
             "effect:replace:atomic"],
     assumptions=["payload domain: schema-conforming subtrees generated by the harness; key leaves are not deleted on their own; shadow paths are not used in requests"])


prop("C03", kind="sim", quick_runs=2400, thorough_s=900,
     rule="one run = one seeded tree v0, a replica built as an independent copy, and a history of 1-4 (thorough: up to 8) steps; each step edits the primary "
          "(seeded batch of leaf sets/changes/deletes, list entry adds/removes, union member changes, ordered-list reorders) and applies Diff or "
          "DiffWithAtomic (plain, MapToSinglePath, PreferShadowPath, IgnoreAdditions) of (vi, vi+1) to the replica with UnmarshalNotifications, under a "
          "fresh seeded map-iteration permutation stream, so the order of deletes/updates inside the notifications is chosen by the simulator; after each "
          "step replica == vi+1 as leaf sets (and as ordered-list order for DiffWithAtomic), every update/delete is checked for soundness and minimality "
          "against the harness's models of vi and vi+1, and Diff of equal trees must be empty; distinct = distinct (package, step outcome trace) hashes; "
          "non-trivial = at least one step changed the tree",
     fault_kinds=["diff_of_invalid_version_first", "failing_diff"],
     probes=["state_changes", "steps_with_deletes", "steps_with_two_or_more_deletes", "steps_with_atomic_notifications", "ordered_list_order_changed",
             "list_entry_removed", "diff_of_equal_trees", "opt:none", "opt:single", "opt:shadow", "opt:ignoreadd", "mode:plain", "mode:atomic"],
     assumptions=["excluded with reason: trees containing keyless lists (Diff documents them as unsupported) and ordered lists nested in ordered lists "
                  "(ygot's gNMI renderer documents them as unsupported)",
                  "the fault injected here is delivery order: which order Diff's map iterations emit deletes and updates in"])


prop("C04", kind="sim", quick_runs=3000, thorough_s=600,
     rule="one run = one seeded tree (unkeyed lists, binary values, unions, ordered and keyed lists populated) put through DeepCopy, or two non-conflicting "
          "projections of it put through MergeStructs, followed by a history of 2-9 (thorough: up to 25) in-place mutations of one side at locations "
          "enumerated by reflection (pointer targets, map entries, slice elements, bytes of binary values, elements of unkeyed lists, wrapper-union "
          "structs, ordered-map internals); after each mutation the deep fingerprint of every other side must be unchanged; "
          "distinct = distinct (package, scenario, mutation trace) hashes; non-trivial = at least one mutation changed the mutated side",
     fault_kinds=[],
     probes=["state_changes", "mutation:pointer-target", "mutation:binary-bytes", "mutation:leaflist-element", "mutation:map-entry-delete",
             "mutation:unkeyed-slice-element-nil", "mutation:ordered-keys-swap", "mutation:ordered-valuemap-delete", "mutation:struct-field-clear",
             "mutation:wrapper-union-field", "mutation:union-binary-bytes"],
     assumptions=["which pairs MergeStructs accepts is C05's subject; runs in which it refuses the pair are counted and skipped"])


prop("C21", kind="race", quick_runs=320, thorough_s=900, race=True, workers=8,
     rule="one run = one simulated execution: 2-4 (thorough: up to 6) caller tasks as real goroutines under the seeded cooperative scheduler (exactly one "
          "runnable at a time; mean preemption gap, starvation window and every switch drawn from the seed; yield points at every function entry, store and "
          "lock operation of ygot's runtime packages and of the generated code), each with 2-5 (thorough: up to 9) operations: read-only operations on one "
          "shared tree (Validate, EmitJSON, Marshal7951, ConstructIETFJSON, TogNMINotifications, GetNode, Diff, DiffWithAtomic, DeepCopy, EncodeTypedValue) "
          "and/or Unmarshal / SetNode / UnmarshalSetRequest histories into private trees sharing one schema and one pool of input messages, with regexp-cache "
          "evictions and failing operations mixed in; each task list is first run alone (reference), then - after a simulated process restart - all interleaved; oracles: race detector (scheduler "
          "hand-offs are hidden from it), results identical to the solo run, termination; distinct = distinct (package, schedule hash, result trace); "
          "non-trivial = at least one preemption or lock-contention switch happened, i.e. tasks really overlapped",
     fault_kinds=["preemption", "lock_contention_switch", "starvation_window", "cache_eviction", "failing_operation", "process_restart"],
     probes=["tasks_overlapped", "lock_observed_held_at_switch", "workload:readers", "workload:writers", "workload:mixed", "race_mode_runs", "interleaving_mode_runs"],
     assumptions=["yield points are source-level: preemption inside un-instrumented dependencies (protobuf, regexp, encoding/json) is not explored, though races inside them are still seen because the whole binary is race-instrumented",
                  "the race detector keeps a bounded access history per memory word, so a race whose first access is very old can be missed",
                  "option structs are private per task (C21 does not declare them shared)"])


def run_workers(binp, pid, tier, base_seed, total_runs, deadline_s, extra_args=None, env=None, workers=None):
    """Runs hsim over [base_seed, base_seed+total_runs) split across workers. Returns parsed lines."""
    workers = workers or min(NCPU, 16)
    per = (total_runs + workers - 1) // workers
    procs = []
    for w in range(workers):
        lo = base_seed + w * per
        hi = min(base_seed + total_runs, lo + per)
        if lo >= hi:
            break
        cmd = [binp, "-prop", pid, "-tier", tier, "-seeds", "%d:%d" % (lo, hi)]
        if deadline_s:
            cmd += ["-deadline", "%ds" % int(deadline_s)]
        cmd += extra_args or []
        e = dict(os.environ)
        e.update(env or {})
        e.pop("VERIF_MAP", None)
        procs.append((cmd, subprocess.Popen(cmd, stdout=subprocess.PIPE, stderr=subprocess.PIPE, env=e, text=True)))
    results, errors = [], []
    for cmd, p in procs:
        try:
            out, err = p.communicate(timeout=(deadline_s or 600) + 900)
        except subprocess.TimeoutExpired:
            p.kill()
            out, err = p.communicate()
            errors.append("worker timed out: %s" % " ".join(cmd))
        done = False
        for line in out.splitlines():
            line = line.strip()
            if not line.startswith("{"):
                continue
            try:
                d = json.loads(line)
            except ValueError:
                errors.append("unparsable worker output: %s" % line[:200])
                continue
            if d.get("type") == "done":
                done = True
            elif d.get("type") == "run":
                results.append(d)
        if p.returncode != 0 or not done:
            errors.append("worker failed rc=%s: %s\n%s" % (p.returncode, " ".join(cmd), (err or "")[-3000:]))
    return results, errors


def replay_once(binp, pid, path, extra_args=None, env=None):
    e = dict(os.environ)
    e.update(env or {})
    p = subprocess.run([binp, "-prop", pid, "-replay", path] + (extra_args or []), stdout=subprocess.PIPE, stderr=subprocess.PIPE, text=True, env=e, timeout=1800)
    for line in p.stdout.splitlines():
        if line.startswith("{"):
            try:
                d = json.loads(line)
            except ValueError:
                continue
            if d.get("type") == "run":
                return d, p
    return None, p


def file_violations(pid, binp, results, info, extra_args=None, env=None, minimiser=None):
    """Dedupes violations by signature, writes replay files, re-executes each in a fresh process.
    Returns (new_violations, known_hits, internal_errors)."""
    by_sig = {}
    for r in results:
        v = r.get("violation")
        if not v:
            continue
        sig = v.get("signature") or v.get("oracle")
        case = r.get("case")
        size = len(json.dumps(case)) if case else 1 << 30
        if sig not in by_sig or size < by_sig[sig][1]:
            by_sig[sig] = (r, size)
    new, known, internal = [], [], []
    minimised = 0
    os.makedirs(REPLAYS, exist_ok=True)
    for sig in sorted(by_sig):
        r = by_sig[sig][0]
        v = r["violation"]
        k = match_known(pid, sig)
        safe = "".join(ch if ch.isalnum() else "_" for ch in sig)[:60]
        path = os.path.join(REPLAYS, "%s-%s-%d.json" % (pid, safe, r["seed"]))
        if minimiser and r.get("case") and not k and minimised < 3:
            try:
                r["case"] = minimiser(binp, pid, r["case"], sig, extra_args, env)
                minimised += 1
            except Exception as e:  # minimisation is best effort; the unminimised case is still exact
                log("minimisation failed: %s" % e)
        doc = {"property": pid, "seed": r["seed"], "violation": v, "case": r.get("case"), "repo_hash": info.get("repo_hash"),
               "how_to_replay": "./verifctl replay %s" % os.path.relpath(path, VERIF)}
        with open(path, "w") as f:
            json.dump(doc, f, indent=1)
        d, p = replay_once(binp, pid, path, extra_args, env)
        # a run can exhibit several violations of one defect (e.g. several racing access pairs);
        # the replay must exhibit the filed one among them
        got = set(((d or {}).get("extra") or {}).get("all_signatures") or [])
        if d is not None and d.get("violation"):
            got.add(d["violation"].get("signature"))
        same_class = v.get("oracle") == "data-race" and any((g or "").startswith("C21:race:") for g in got)
        # The race detector reports one access pair per racy address and per pair of stacks, once per
        # process: which of several conflicting pairs of one defect it prints depends on what the process
        # reported before. A fresh-process replay of a data race therefore has to show a race attributed
        # to ygot, not necessarily the very same pair of source lines.
        if v.get("signature") not in got and not same_class:
            internal.append("replay of %s did not reproduce the violation (%s): %s" % (path, v.get("oracle"), (p.stdout + p.stderr)[-1500:]))
            continue
        if k:
            known.append((k, v, path))
        else:
            new.append((v, path))
    return new, known, internal


def pinned_known(pid, binp, extra_args=None, env=None):
    """Every status=known finding carries a pinned reproduction under known_cases/. It is replayed at the
    start of every check so that the KNOWN-FINDING line does not depend on the seeded search happening
    to reach the finding (the union-key twin entries of C13 show up about once in 60000 quick runs).
    A pinned case that no longer reproduces is only logged: the finding may have been repaired."""
    hits = []
    for f in load_known():
        if f.get("property") != pid or f.get("status") != "known" or not f.get("case"):
            continue
        path = os.path.join(VERIF, f["case"])
        d, p = replay_once(binp, pid, path, extra_args, env)
        got = set(((d or {}).get("extra") or {}).get("all_signatures") or [])
        if d is not None and d.get("violation"):
            got.add(d["violation"].get("signature"))
        if f["signature"] in got:
            hits.append((f, (d or {}).get("violation"), path))
        else:
            log("known finding %s: its pinned case %s did not reproduce (got %s) - repaired, or the harness generators changed"
                % (f["signature"], f["case"], sorted(g for g in got if g) or "no violation"))
    return hits


def _replay_has(binp, pid, case, sig, extra_args, env, tmpdir):
    path = os.path.join(tmpdir, "cand.json")
    with open(path, "w") as f:
        json.dump({"property": pid, "case": case}, f)
    d, _ = replay_once(binp, pid, path, extra_args, env)
    if d is None:
        return False
    got = set(((d.get("extra") or {}).get("all_signatures")) or [])
    if d.get("violation"):
        got.add(d["violation"].get("signature"))
    return sig in got


def _ddmin(items, test, budget):
    """Classic delta debugging on a list; test(sub) -> still fails. budget: [remaining candidate runs]."""
    n = 2
    while len(items) >= 2 and budget[0] > 0:
        chunk = (len(items) + n - 1) // n
        reduced = False
        for start in range(0, len(items), chunk):
            if budget[0] <= 0:
                break
            cand = items[:start] + items[start + chunk:]
            budget[0] -= 1
            if test(cand):
                items = cand
                n = max(2, n - 1)
                reduced = True
                break
        if not reduced:
            if chunk <= 1:
                break
            n = min(len(items), n * 2)
    if len(items) == 1 and budget[0] > 0:
        budget[0] -= 1
        if test([]):
            items = []
    return items


def minimise_schedule_case(binp, pid, case, sig, extra_args, env, budget_runs=60):
    """Shrinks a C21 case (tasks, operations per task, explicit preemptions) by delta debugging.
    Every candidate is executed in a fresh process; it is kept only if the same violation signature shows."""
    import copy
    tmpdir = tempfile.mkdtemp(prefix="verif-min-", dir=build.SCRATCH)
    budget = [budget_runs]
    try:
        best = copy.deepcopy(case)

        def ok(c):
            return _replay_has(binp, pid, c, sig, extra_args, env, tmpdir)

        # 1. preemptions: most violations here do not depend on where the switches fall
        ex = (best.get("sched") or {}).get("explicit") or []
        if ex:
            def test_ex(sub):
                c = copy.deepcopy(best)
                c["sched"]["explicit"] = sub
                return ok(c)
            budget[0] -= 1
            if test_ex([]):
                best["sched"]["explicit"] = []
            else:
                best["sched"]["explicit"] = _ddmin(ex, test_ex, budget)
        # 2. whole tasks (keep at least two)
        i = 0
        while len(best["tasks"]) > 2 and i < len(best["tasks"]) and budget[0] > 0:
            c = copy.deepcopy(best)
            del c["tasks"][i]
            # preemptions name task indices: they are meaningless once a task is gone
            c["sched"]["explicit"] = []
            budget[0] -= 1
            if ok(c):
                best = c
            else:
                i += 1
        # 3. operations of every task
        for t in range(len(best["tasks"])):
            def test_ops(sub, t=t):
                c = copy.deepcopy(best)
                c["tasks"][t] = sub
                return ok(c)
            best["tasks"][t] = _ddmin(best["tasks"][t], test_ops, budget)
        best["minimised"] = {"candidate_runs": budget_runs - budget[0]}
        return best
    finally:
        shutil.rmtree(tmpdir, ignore_errors=True)


def write_evidence(pid, tier, seed, cov, assumptions, wall, violations):
    evdir = os.environ.get("VERIF_EVIDENCE_DIR") or os.path.join(VERIF, "evidence")
    os.makedirs(evdir, exist_ok=True)
    ev = {"property_id": pid, "tier": tier, "seed": seed, "level": "exploration", "coverage": cov,
          "assumptions": assumptions, "wall_s": round(wall, 2), "violations": violations}
    with open(os.path.join(evdir, pid + ".json"), "w") as f:
        json.dump(ev, f, indent=1)
        f.write("\n")


COMPONENTS = {
    "real_code": ["all of ygot's packages (instrumented copy of /repo's working tree)", "generated Go code produced at check time by the copy's own generator",
                  "goyang", "protobuf / gNMI protos", "Go runtime (and its race detector in race builds)"],
    "simulated_or_stubbed": ["map iteration order (simrt.MapSeq / MapKeys / MapRange seam)", "task scheduler (cooperative, seeded; C21 only)",
                             "sync.RWMutex acquisition (TryLock shim; C21 only)", "regexp-cache eviction hook (buggify; C21 only)"],
    "not_simulated_because_absent_in_ygot": ["clocks/timers", "network transport", "disk / crash-restart", "allocation failure"],
}


def generic_check(pid, tier, seed):
    cfg = PROPS[pid]
    t0 = time.time()
    info = build.build_sim(cfg["kind"])
    binp = info["bin"]
    base = seed * 1000003
    if tier == "quick":
        total, deadline = cfg["quick_runs"], 240
    else:
        total, deadline = 10 ** 9, cfg["thorough_s"]
        # thorough is time-bounded: give each worker a large seed range and a deadline
        total = cfg.get("thorough_runs", 4000000)
    env = None
    racedir = None
    extra = list(cfg.get("args") or [])
    hidesync = None
    if cfg.get("race"):
        um = json.load(open(info["sites"])).get("unmodelled_sync") or []
        hidesync = not um
        if um:
            log("code under test uses synchronisation the lock shims do not model (%s ...): running with library synchronisation visible" % um[0])
            extra.append("-hidesync=false")
    cfg = dict(cfg, args=extra)
    if cfg.get("race"):
        racedir = tempfile.mkdtemp(prefix="verif-race-", dir=build.SCRATCH)
        env = {"GORACE": "log_path=%s/race halt_on_error=0 exitcode=0 history_size=5" % racedir}
    try:
        results, errors = run_workers(binp, pid, tier, base, total, deadline, extra_args=cfg.get("args"), env=env, workers=cfg.get("workers"))
        internal = [r["internal"] for r in results if r.get("internal")]
        new, known, rep_int = file_violations(pid, binp, results, info, extra_args=cfg.get("args"), env=env,
                                              minimiser=minimise_schedule_case if cfg.get("race") else None)
        pinned = pinned_known(pid, binp, extra_args=cfg.get("args"), env=env)
        known = pinned + [h for h in known if h[0]["signature"] not in set(p[0]["signature"] for p in pinned)]
    finally:
        if racedir:
            shutil.rmtree(racedir, ignore_errors=True)
    if rep_int and (new or known):
        # some reported violations did not reproduce from their replay file and are dropped;
        # the ones that did reproduce stand on their own
        for e in rep_int:
            log("DROPPED (did not reproduce in a fresh process, not reported):", e[:600])
    else:
        internal += rep_int
    wall = time.time() - t0
    run_wall = max(1e-6, wall - info.get("build_s", 0) if False else wall)
    fps = set()
    faults, probes = {}, {}
    fault_free = fault_inj = 0
    steps = 0
    samples = []
    for r in results:
        if r.get("nontrivial"):
            fps.add(r.get("fp"))
        for k, v in (r.get("faults") or {}).items():
            faults[k] = faults.get(k, 0) + v
        for k, v in (r.get("probes") or {}).items():
            probes[k] = probes.get(k, 0) + v
        steps += r.get("steps", 0)
        if r.get("sample") is not None and len(samples) < 4:
            samples.append({"seed": r["seed"], **(r["sample"] if isinstance(r["sample"], dict) else {"sample": r["sample"]})})
        if r.get("sample") is not None and isinstance(r["sample"], dict):
            if r["sample"].get("faults"):
                fault_inj += 1
            else:
                fault_free += 1
    gaps = [p for p in cfg.get("probes", []) if probes.get(p, 0) == 0]
    gaps += ["fault:" + f for f in cfg.get("fault_kinds", []) if faults.get(f, 0) == 0]
    cov = {
        "evaluations": len(results),
        "distinct_nontrivial": len(fps),
        "rule": cfg["rule"],
        "samples": samples or [{"note": "no sample collected"}],
        "simulated_runs": len(results),
        "runs_per_hour": int(len(results) / wall * 3600) if wall > 0 else 0,
        "seeds": {"first": base, "count": len(results)},
        "logical_steps_simulated": steps,
        "simulated_time": "not applicable: the code under test reads no clock and has no timers",
        "faults_fired": faults,
        "probes": probes,
        "coverage_gaps": gaps,
        "components": COMPONENTS,
        "build": {"repo_hash": info.get("repo_hash"), "corpus": info.get("corpus"), "kind": info.get("kind")},
        "known_findings_hit": [k["signature"] for k, _, _ in known],
    }
    if hidesync is not None:
        cov["race_oracle"] = ("library-internal synchronisation hidden from the detector; only the mutexes of the code under test order tasks"
                              if hidesync else "all synchronisation visible (code under test uses primitives the shims do not model)")
        cov["race_reports_outside_ygot_ignored"] = sum((r.get("extra") or {}).get("race_reports_outside_ygot", 0) for r in results)
        cov["schedule_measures"] = {"distinct_schedule_hashes": len(set((r.get("extra") or {}).get("sched_hash") for r in results)),
                                    "preemptions": sum((r.get("extra") or {}).get("preempts", 0) for r in results),
                                    "distinct_preempted_site_to_task_pairs_per_run_sum": sum((r.get("extra") or {}).get("switch_sites", 0) for r in results)}
    assumptions = [
        "sampling, not enumeration: a clean batch bounds nothing beyond the histories it visited",
        "the harness's own tree walker / reference model and the instrumenter's map-iteration rewrite are trusted",
        "no interleaving, clock or I/O fault is involved: this surface of ygot has none",
    ] + cfg.get("assumptions", [])
    write_evidence(pid, tier, seed, cov, assumptions, wall, len(new))
    for k, v, path in known:
        print("KNOWN-FINDING: property=%s %s [%s] replay=%s" % (pid, k.get("what", ""), k["signature"], os.path.relpath(path, VERIF)))
    if errors or internal:
        for e in errors + internal:
            log("INTERNAL:", e[:3000])
        log("infrastructure trouble: exit 2 (not a violation)")
        return 2
    if len(results) == 0:
        log("no runs executed: exit 2")
        return 2
    for v, path in new:
        print("VIOLATION property=%s replay=%s" % (pid, path))
        print("  oracle=%s signature=%s\n  %s" % (v.get("oracle"), v.get("signature"), (v.get("msg") or "")[:600]))
    log("%s %s: %d runs, %d distinct non-trivial, %d new violation signature(s), %d known, %.1fs" % (pid, tier, len(results), len(fps), len(new), len(known), wall))
    return 1 if new else 0


def generated_code_violation(pid, tier, seed, e):
    """C15 / C34 are about the helpers the generator emits. The workload packages are generated from
    YANG by the working tree's own generator at check time and compile on the unchanged tree; if they
    stop compiling, the helpers this property speaks about are broken in the plainest way."""
    os.makedirs(REPLAYS, exist_ok=True)
    path = os.path.join(REPLAYS, "%s-generated-code-does-not-compile.json" % pid)
    first = [l for l in e.output.splitlines() if ".go:" in l][:8]
    sig = "%s:generated-code-does-not-compile" % pid
    doc = {"property": pid, "seed": seed, "violation": {"property": pid, "oracle": "generated-code-compile", "signature": sig,
                                                      "msg": "the Go code generated for the workload schemas does not compile: " + " | ".join(first)},
           "case": {"corpus": e.pkgs, "how": "run the working tree's generator with the flags of vlib/corpus.py on schemas/verif-oc.yang and `go build` the result"},
           "compiler_output": e.output[-6000:], "how_to_replay": "./verifctl check %s" % pid}
    with open(path, "w") as f:
        json.dump(doc, f, indent=1)
    cov = {"evaluations": len(e.pkgs), "distinct_nontrivial": len(e.pkgs),
           "rule": "this run stopped at the build step: the packages generated from the workload schemas (one evaluation each) do not compile",
           "samples": [{"compiler_output_head": first}], "components": COMPONENTS}
    write_evidence(pid, tier, seed, cov, ["no history was executed in this run"], 0.0, 1)
    k = match_known(pid, sig)
    if k:
        print("KNOWN-FINDING: property=%s %s [%s]" % (pid, k.get("what", ""), sig))
        return 0
    print("VIOLATION property=%s replay=%s" % (pid, path))
    print("  oracle=generated-code-compile signature=%s\n  %s" % (sig, "\n  ".join(first)))
    return 1


def main(cmd, argv):
    ap = argparse.ArgumentParser(prog="verifctl " + cmd)
    if cmd == "check":
        ap.add_argument("prop")
        ap.add_argument("--tier", default=os.environ.get("VERIF_TIER", "quick"), choices=["quick", "thorough"])
        ap.add_argument("--seed", type=int, default=int(os.environ.get("VERIF_SEED", "1")))
        a = ap.parse_args(argv)
        try:
            if a.prop in SPECIAL:
                return SPECIAL[a.prop](a.prop, a.tier, a.seed)
            if a.prop not in PROPS:
                log("unknown property", a.prop)
                return 2
            return generic_check(a.prop, a.tier, a.seed)
        except build.GeneratedCodeError as e:
            if a.prop not in ("C15", "C34"):
                log("BUILD/INFRA ERROR (exit 2, not a violation):\n%s" % e)
                return 2
            return generated_code_violation(a.prop, a.tier, a.seed, e)
        except build.BuildError as e:
            log("BUILD/INFRA ERROR (exit 2, not a violation):\n%s" % e)
            return 2
        except subprocess.TimeoutExpired as e:
            log("watchdog: %s" % e)
            return 2
    if cmd == "replay":
        ap.add_argument("path")
        a = ap.parse_args(argv)
        doc = json.load(open(a.path))
        pid = doc["property"]
        if pid in SPECIAL_REPLAY:
            return SPECIAL_REPLAY[pid](a.path, doc)
        info = build.build_sim(PROPS[pid]["kind"])
        d, p = replay_once(info["bin"], pid, a.path, extra_args=PROPS[pid].get("args"))
        if d is None:
            log("replay produced no result:\n" + (p.stdout + p.stderr)[-3000:])
            return 2
        print(json.dumps(d, indent=1)[:20000])
        if d.get("violation"):
            print("VIOLATION property=%s replay=%s" % (pid, a.path))
            return 1
        return 0
    if cmd == "selftest":
        from . import selftest
        return selftest.main(argv)
    return 2


SPECIAL = {}
SPECIAL_REPLAY = {}

from . import c25  # noqa: E402,F401  (registers the C25 check)
