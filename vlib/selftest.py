"""Determinism self-test of the simulator: the same seed must give the same event log
(operation/result trace hash, map-order decision hash, schedule hash, verdict) whatever
else ran before it in the process, whichever process it runs in, and at any GOMAXPROCS."""
import json
import os
import subprocess
import sys

from . import build, checks


def run_seeds(binp, pid, lo, hi, gomax, extra=None, env=None):
    e = dict(os.environ)
    e.update(env or {})
    e["GOMAXPROCS"] = str(gomax)
    e.pop("VERIF_MAP", None)
    p = subprocess.run([binp, "-prop", pid, "-seeds", "%d:%d" % (lo, hi)] + (extra or []), stdout=subprocess.PIPE, stderr=subprocess.PIPE, text=True, env=e, timeout=3600)
    out = {}
    for line in p.stdout.splitlines():
        if not line.startswith("{"):
            continue
        d = json.loads(line)
        if d.get("type") != "run":
            continue
        ex = d.get("extra") or {}
        out[d["seed"]] = (d.get("loghash"), ex.get("map_hash"), ex.get("map_events"), ex.get("sched_hash"), (d.get("violation") or {}).get("signature"), d.get("internal"))
    return out, p


def selftest_prop(pid, kind, n=48, base=7000000, procs=30, extra=None, race=False):
    info = build.build_sim(kind)
    binp = info["bin"]
    env = None
    racedir = None
    if race:
        import tempfile
        racedir = tempfile.mkdtemp(prefix="verif-race-", dir=build.SCRATCH)
        env = {"GORACE": "log_path=%s/race halt_on_error=0 exitcode=0 history_size=5" % racedir}
        n = 24
    try:
        return _selftest(binp, pid, n, base, procs, extra, env)
    finally:
        if racedir:
            import shutil
            shutil.rmtree(racedir, ignore_errors=True)


def _selftest(binp, pid, n, base, procs, extra, env):
    ref, p = run_seeds(binp, pid, base, base + n, 16, extra, env)
    if len(ref) != n:
        print("selftest %s: reference batch incomplete (%d/%d)\n%s" % (pid, len(ref), n, p.stderr[-2000:]))
        return False
    ok = True
    runs = 0
    # different chunkings (so every seed is sometimes first in its process, sometimes not),
    # different GOMAXPROCS, many fresh processes
    plans = []
    for gomax in (1, 4, 16):
        for chunk in (1, 5, 16):
            plans.append((gomax, chunk))
    done_procs = 0
    for gomax, chunk in plans:
        lo = base
        while lo < base + n and done_procs < procs * 3:
            hi = min(base + n, lo + chunk)
            got, p = run_seeds(binp, pid, lo, hi, gomax, extra, env)
            done_procs += 1
            for s in range(lo, hi):
                runs += 1
                if got.get(s) != ref.get(s):
                    ok = False
                    print("selftest %s: seed %d diverges (GOMAXPROCS=%d chunk=%d): %s vs reference %s" % (pid, s, gomax, chunk, got.get(s), ref.get(s)))
            lo = hi
    print("selftest %s: %d seeds, %d re-executions in %d processes: %s" % (pid, n, runs, done_procs, "deterministic" if ok else "NON-DETERMINISTIC"))
    return ok


def main(argv):
    props = argv or sorted(checks.PROPS)
    ok = True
    for pid in props:
        cfg = checks.PROPS.get(pid)
        if not cfg:
            continue
        ok = selftest_prop(pid, cfg["kind"], extra=cfg.get("args"), race=bool(cfg.get("race"))) and ok
    return 0 if ok else 2
