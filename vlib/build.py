"""Build pipeline shared by every check: scratch copy of /repo -> corpus generation with the
copy's own generator -> instrumentation -> harness injection -> go build.

Nothing is ever built inside /repo. Builds are cached per content hash of /repo's working
tree (any edit under /repo forces a rebuild); stale caches are deleted.
"""
import fcntl
import hashlib
import json
import os
import shutil
import subprocess
import sys
import time

VERIF = os.path.dirname(os.path.dirname(os.path.abspath(__file__)))
# an empty value means "not set" (an unset shell variable expanded into the assignment must not
# turn the repository into "/": that once made a background run copy the whole file system)
REPO = os.path.abspath(os.environ.get("VERIF_REPO") or "/repo")
SCRATCH = os.path.abspath(os.environ.get("VERIF_SCRATCH") or "/var/tmp")
CACHE_ROOT = os.path.join(SCRATCH, "verif-cache")
GOYANG_SRC = "/root/go/pkg/mod/github.com/openconfig/goyang@v1.6.0"

GOENV = {
    "GOFLAGS": "-mod=mod",
    "GOPROXY": "off",
    "GOSUMDB": "off",
    "GOTOOLCHAIN": "local",
    "GONOSUMDB": "*",
    "GONOSUMCHECK": "1",
    "GOWORK": "off",
}


class BuildError(Exception):
    pass


class GeneratedCodeError(BuildError):
    """The Go code the working tree's generator produced for the workload schemas does not compile."""

    def __init__(self, pkgs, output):
        super().__init__("generated code does not compile:\n" + output[-4000:])
        self.pkgs = pkgs
        self.output = output


def goenv(extra=None):
    e = dict(os.environ)
    e.update(GOENV)
    # never inherit simulator settings into build steps
    for k in ("VERIF_MAP", "VERIF_SITES", "VERIF_STATS"):
        e.pop(k, None)
    if extra:
        e.update(extra)
    return e


def log(*a):
    print("[verif]", *a, file=sys.stderr, flush=True)


def run(cmd, cwd=None, env=None, timeout=3600, check=True, quiet=False):
    t0 = time.time()
    p = subprocess.run(cmd, cwd=cwd, env=env or goenv(), stdout=subprocess.PIPE, stderr=subprocess.STDOUT,
                       timeout=timeout, text=True)
    if not quiet:
        log("$ %s  (%.1fs, rc=%d)" % (" ".join(cmd)[:160], time.time() - t0, p.returncode))
    if check and p.returncode != 0:
        raise BuildError("command failed: %s\n%s" % (" ".join(cmd), p.stdout[-6000:]))
    return p


def repo_hash():
    """Content hash of /repo's working tree (tracked or not), excluding .git."""
    h = hashlib.sha256()
    for root, dirs, files in os.walk(REPO):
        dirs[:] = sorted(d for d in dirs if d != ".git")
        for f in sorted(files):
            p = os.path.join(root, f)
            rel = os.path.relpath(p, REPO)
            try:
                with open(p, "rb") as fh:
                    data = fh.read()
            except OSError:
                continue
            h.update(rel.encode())
            h.update(b"\0")
            h.update(hashlib.sha256(data).digest())
    return h.hexdigest()[:20]


def verif_hash():
    """Hash of the machinery that goes into a build (harness, simrt, instrumenter, schemas)."""
    h = hashlib.sha256()
    for sub in ("sim", "tools", "schemas", "vlib"):
        base = os.path.join(VERIF, sub)
        for root, dirs, files in os.walk(base):
            dirs[:] = sorted(d for d in dirs if d != "__pycache__")
            for f in sorted(files):
                if f.endswith(".pyc"):
                    continue
                p = os.path.join(root, f)
                h.update(os.path.relpath(p, VERIF).encode())
                with open(p, "rb") as fh:
                    h.update(hashlib.sha256(fh.read()).digest())
    return h.hexdigest()[:12]


def instr_bin():
    p = os.path.join(VERIF, "bin", "instr")
    if not os.path.exists(p):
        setup()
    return p


def setup():
    """Build the instrumenter from files on disk (offline)."""
    os.makedirs(os.path.join(VERIF, "bin"), exist_ok=True)
    run(["go", "build", "-o", os.path.join(VERIF, "bin", "instr"), "."], cwd=os.path.join(VERIF, "tools", "instr"))


class Lock:
    def __init__(self, path):
        self.path = path

    def __enter__(self):
        os.makedirs(os.path.dirname(self.path), exist_ok=True)
        self.fh = open(self.path, "w")
        fcntl.flock(self.fh, fcntl.LOCK_EX)
        return self

    def __exit__(self, *a):
        fcntl.flock(self.fh, fcntl.LOCK_UN)
        self.fh.close()


def prune_caches(keep):
    if not os.path.isdir(CACHE_ROOT):
        return
    for d in os.listdir(CACHE_ROOT):
        p = os.path.join(CACHE_ROOT, d)
        if d.endswith(".lock") or d == keep or not os.path.isdir(p):
            continue
        # another process may be using a cache for the same tree; only caches for other trees go
        log("removing stale build cache", p)
        shutil.rmtree(p, ignore_errors=True)
        try:
            os.unlink(p + ".lock")
        except OSError:
            pass


def copy_repo(dst):
    # never copy anything that is not the ygot repository
    gomod = os.path.join(REPO, "go.mod")
    if not os.path.isfile(gomod) or "module github.com/openconfig/ygot" not in open(gomod).read():
        raise BuildError("VERIF_REPO=%r is not a checkout of github.com/openconfig/ygot (no matching go.mod)" % REPO)
    os.makedirs(dst, exist_ok=True)
    run(["rsync", "-a", "--delete", "--exclude", ".git", REPO + "/", dst + "/"], quiet=True)


def inject_simrt(copy):
    d = os.path.join(copy, "verifsim")
    if os.path.exists(d):
        shutil.rmtree(d)
    shutil.copytree(os.path.join(VERIF, "sim", "simrt"), os.path.join(d, "simrt"))
    shutil.copy(os.path.join(VERIF, "sim", "go.mod"), os.path.join(d, "go.mod"))
    with open(os.path.join(copy, "go.mod"), "a") as f:
        f.write("\nrequire verifsim v0.0.0\nreplace verifsim => ./verifsim\n")


def inject_goyang(copy):
    """Copy goyang from the module cache into the scratch copy so that it can be instrumented."""
    d = os.path.join(copy, "verifgoyang")
    if os.path.exists(d):
        shutil.rmtree(d)
    shutil.copytree(GOYANG_SRC, d)
    run(["chmod", "-R", "u+w", d], quiet=True)
    gm = os.path.join(d, "go.mod")
    s = open(gm).read().replace("go 1.14", "go 1.23.4")
    s += "\nrequire verifsim v0.0.0\nreplace verifsim => ../verifsim\n"
    open(gm, "w").write(s)
    for junk in ("testdata",):
        shutil.rmtree(os.path.join(d, junk), ignore_errors=True)
    with open(os.path.join(copy, "go.mod"), "a") as f:
        f.write("\nreplace github.com/openconfig/goyang => ./verifgoyang\n")


RUNTIME_PKGS = ["./ygot", "./ytypes", "./util", "./internal/yreflect", "./gnmidiff", "./protomap", "./ygot/pathtranslate"]
GEN_PKGS = ["./ygen", "./gogen", "./protogen", "./ypathgen", "./genutil", "./generator", "./proto_generator",
            "./gogen/internal/gotypes", "./internal/igenutil", "./ypathgen/path_tests"]


def existing_pkgs(copy, pkgs):
    out = []
    for p in pkgs:
        d = os.path.join(copy, p)
        if os.path.isdir(d) and any(f.endswith(".go") and not f.endswith("_test.go") for f in os.listdir(d)):
            out.append(p)
    return out


def generate_corpus(copy, genbin, corpus, only=None):
    """Run the copy's generator over the corpus; returns the registry entries."""
    reg = []
    for ent in corpus:
        if only and ent["name"] not in only:
            continue
        outdir = os.path.join(copy, "verifcorpus", ent["name"])
        os.makedirs(outdir, exist_ok=True)
        out = os.path.join(outdir, ent["name"] + ".go")
        yfiles = [os.path.join(copy, y) if not y.startswith("/") else y for y in ent["yang"]]
        paths = ",".join(os.path.join(copy, p) if not p.startswith("/") else p for p in ent.get("path", []))
        cmd = [genbin, "-path=" + paths, "-output_file=" + out, "-package_name=" + ent["name"]] + ent["flags"] + yfiles
        p = run(cmd, cwd=copy, check=False, quiet=True)
        if p.returncode != 0 or not os.path.exists(out):
            raise BuildError("generator failed for corpus %s:\n%s" % (ent["name"], p.stdout[-4000:]))
        reg.append(ent)
    return reg


def write_registry(copy, reg):
    d = os.path.join(copy, "verifharness", "corpus")
    os.makedirs(d, exist_ok=True)
    lines = ["// Code generated by verifctl. DO NOT EDIT.", "package corpus", "", "import (", '\t"reflect"', ""]
    for i, ent in enumerate(reg):
        lines.append('\tc%d "github.com/openconfig/ygot/verifcorpus/%s"' % (i, ent["name"]))
    lines.append(")")
    lines.append("")
    lines.append("func init() {")
    for i, ent in enumerate(reg):
        lines.append('\tRegister(&Pkg{Name: %s, SchemaFn: c%d.Schema, GlobalTree: func() map[string]*yangEntry { return c%d.SchemaTree }, SetGlobalTree: func(m map[string]*yangEntry) { c%d.SchemaTree = m }, Unmarshal: c%d.Unmarshal, BinaryType: reflect.TypeOf(c%d.Binary(nil)), Compressed: %s, Tags: %s})' % (
            json.dumps(ent["name"]), i, i, i, i, i, "true" if ent.get("compressed") else "false",
            "[]string{" + ",".join(json.dumps(t) for t in ent.get("tags", [])) + "}"))
    lines.append("}")
    with open(os.path.join(d, "registry_gen.go"), "w") as f:
        f.write("\n".join(lines) + "\n")


def build_sim(kind):
    """kind: 'sim' (map-order seam only) or 'race' (seam + yields, -race). Returns dict with paths."""
    from . import corpus as corpus_mod
    rh = repo_hash()
    key = rh + "-" + verif_hash()
    base = os.path.join(CACHE_ROOT, key)
    with Lock(base + ".lock"):
        prune_caches(key)
        kd = os.path.join(base, kind)
        stamp = os.path.join(kd, "BUILD_OK.json")
        if os.path.exists(stamp):
            return json.load(open(stamp))
        t0 = time.time()
        if os.path.exists(kd):
            shutil.rmtree(kd)
        copy = os.path.join(kd, "src")
        copy_repo(copy)
        shutil.copy(os.path.join(copy, "go.sum"), os.path.join(copy, "go.sum.orig"))
        # 1. generator of the copy (pristine, uninstrumented) produces the corpus packages
        genbin = os.path.join(kd, "generator.bin")
        run(["go", "build", "-o", genbin, "./generator"], cwd=copy)
        reg = generate_corpus(copy, genbin, corpus_mod.CORPUS)
        # 1b. the generated packages must compile before anything is layered on top of them
        p = run(["go", "build"] + ["./verifcorpus/" + e["name"] for e in reg], cwd=copy, check=False)
        if p.returncode != 0:
            raise GeneratedCodeError([e["name"] for e in reg], p.stdout)
        # 2. seam (the cache-eviction hook goes in first so that its locks get the shim too)
        shutil.copy(os.path.join(VERIF, "sim", "inject", "ytypes_buggify.go"), os.path.join(copy, "ytypes", "zz_verif_buggify.go"))
        inject_simrt(copy)
        pkgs = existing_pkgs(copy, RUNTIME_PKGS) + ["./verifcorpus/" + e["name"] for e in reg]
        args = [instr_bin(), "-dir", copy, "-sites", os.path.join(kd, "sites.json")]
        if kind == "race":
            args.append("-yield")
        args += ["-resetglobals", "ygot/ygot,ygot/ytypes,ygot/util,ygot/internal/yreflect"]
        run(args + pkgs, cwd=copy)
        # 3. harness
        hd = os.path.join(copy, "verifharness")
        if os.path.exists(hd):
            shutil.rmtree(hd)
        shutil.copytree(os.path.join(VERIF, "sim", "harness"), hd)
        write_registry(copy, reg)
        binp = os.path.join(kd, "hsim")
        cmd = ["go", "build", "-o", binp]
        if kind == "race":
            cmd.append("-race")
        run(cmd + ["./verifharness/cmd/hsim"], cwd=copy)
        info = {"kind": kind, "bin": binp, "src": copy, "repo_hash": rh, "sites": os.path.join(kd, "sites.json"),
                "build_s": round(time.time() - t0, 1), "corpus": [e["name"] for e in reg]}
        json.dump(info, open(stamp, "w"))
        return info


def clean():
    shutil.rmtree(CACHE_ROOT, ignore_errors=True)
