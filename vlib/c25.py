"""C25 — code generation is deterministic, whatever the map iteration order or process.

The system under test is the real `generator` and `proto_generator` binaries built from an
instrumented scratch copy of /repo (ygen, gogen, protogen, ypathgen, genutil, ygot, util and a
copy of goyang): every `range` over a map and every reflect map iteration goes through the
simulator's map-order seam. Every generation is a fresh OS process; the schedule a run is
given is the order in which each map-iteration site yields its keys:

  canon          reference: keys in canonical (content-sorted) order at every site
  rand:<seed>    a seeded permutation at every site
  rev            canonical order reversed at every site
  rev @ {site}   one site reversed, all others canonical (single-site sweep over every site
                 that saw >= 2 keys in the reference run: each such `range` statement is
                 perturbed alone at least once)
  pass           the Go runtime's own randomised order (two independent processes)

Oracle: every output file of every run is byte-identical to the reference run's.
A violation is minimised to the smallest set of sites whose order matters (delta debugging
over VERIF_SITES with the failing seed) and filed as a replay file.
"""
import errno
import hashlib
import json
import os
import random
import shutil
import subprocess
import sys
import tempfile
import threading
import time

from . import build, checks

VERIF = build.VERIF
REPLAYS = os.environ.get("VERIF_REPLAY_DIR") or os.path.join(VERIF, "replays")
S = os.path.join(VERIF, "schemas")


def log(*a):
    print("[verif]", *a, file=sys.stderr, flush=True)


# --------------------------------------------------------------------------- corpus

GO_BASE = ["-generate_fakeroot", "-fakeroot_name=device"]
GO_RICH = ["-generate_rename", "-generate_append", "-generate_getters", "-generate_delete", "-generate_leaf_getters", "-generate_leaf_setters",
           "-generate_populate_defaults", "-annotations", "-include_model_data", "-include_descriptions", "-yangpresence"]

# schema sets: name -> (yang files, include paths); paths relative to the scratch copy unless absolute
SCHEMAS = {
    "verif-oc": ([S + "/verif-oc.yang"], [S]),
    "verif-clash": ([S + "/verif-clash.yang"], [S]),
    "verif-action": ([S + "/verif-action.yang"], [S]),
    "lab-telemetry": ([S + "/lab-telemetry.yang"], [S]),
    "verif-unionshapes": ([S + "/verif-unionshapes.yang"], [S]),
    "verif-choices": ([S + "/verif-choices.yang"], [S]),
    # the import of vs-main is resolved through the input file's own directory: no include path
    "verif-sibling": ([S + "/sibling/vs-main.yang"], []),
    "verif-pkgclash": ([S + "/pkgclash/vpc-probes.yang", S + "/pkgclash/probes.yang"], [S + "/pkgclash"]),
    "verif-multi": ([S + "/multi/vm-base.yang", S + "/multi/vm-aug-a.yang", S + "/multi/vm-aug-b.yang", S + "/multi/vm-aug-c.yang", S + "/multi/vm-types.yang", S + "/multi/vm-Types.yang"], [S + "/multi"]),
    "cts": (["integration_tests/schemaops/yang/ctestschema.yang", "integration_tests/schemaops/yang/ctestschema-rootmod.yang"], ["integration_tests/schemaops/yang"]),
    "uts": (["integration_tests/schemaops/yang/utestschema.yang", "integration_tests/schemaops/yang/refschema.yang",
             "integration_tests/schemaops/yang/ctestschema.yang", "integration_tests/schemaops/yang/ctestschema-rootmod.yang"], ["integration_tests/schemaops/yang"]),
    "oc-interfaces": (["demo/getting_started/yang/openconfig-interfaces.yang", "demo/getting_started/yang/openconfig-if-ip.yang"], ["demo/getting_started/yang"]),
    "oc-options": (["gogen/testdata/schema/openconfig-options.yang"], ["gogen/testdata/schema"]),
}
for m in ["enum-module", "enum-union", "enum-duplication", "enum-multi-module", "openconfig-simple", "openconfig-withlist", "openconfig-unione",
          "openconfig-complex", "openconfig-camelcase", "openconfig-list-enum-key", "openconfig-augmented", "choice-case-example", "openconfig-fakeroot",
          "openconfig-config-false", "presence-container-example", "openconfig-leaflist-default", "enum-union-with-enum-defaults", "openconfig-versioned-mod"]:
    SCHEMAS["tm-" + m] = (["testdata/modules/%s.yang" % m], ["testdata/modules"])
for m in ["proto-test-a", "proto-test-b", "proto-test-c", "proto-test-d", "proto-test-e", "proto-test-f", "proto-test-g", "proto-enums", "nested-messages",
          "proto-union-list-key", "cross-ref-src"]:
    SCHEMAS["pt-" + m] = (["protogen/testdata/proto/%s.yang" % m], ["protogen/testdata/proto"])

GO_FLAGSETS = {
    "compress-rich-simple": GO_BASE + GO_RICH + ["-compress_paths", "-generate_simple_unions", "-shorten_enum_leaf_names", "-typedef_enum_with_defmod",
                                                 "-enum_suffix_for_simple_union_enums", "-ignore_shadow_schema_paths"],
    "compress-wrapper": GO_BASE + ["-compress_paths", "-generate_getters", "-generate_ordered_maps=false"],
    "compress-opstate": GO_BASE + ["-compress_paths", "-prefer_operational_state", "-generate_simple_unions", "-trim_enum_openconfig_prefix"],
    "compress-excludestate": GO_BASE + ["-compress_paths", "-exclude_state", "-generate_simple_unions", "-skip_enum_deduplication"],
    "uncompressed-rich": GO_BASE + GO_RICH + ["-generate_simple_unions"],
    "uncompressed-nofakeroot": ["-generate_simple_unions", "-generate_getters"],
    "compress-split": GO_BASE + ["-compress_paths", "-generate_simple_unions", "-structs_split_files_count=3"],
    "paths": GO_BASE + ["-compress_paths", "-generate_simple_unions", "-generate_path_structs", "-shorten_enum_leaf_names", "-typedef_enum_with_defmod",
                        "-enum_suffix_for_simple_union_enums"],
    "paths-split": GO_BASE + ["-compress_paths", "-generate_simple_unions", "-generate_path_structs", "-split_pathstructs_by_module",
                              "-base_import_path=example.com/verif/out", "-path_structs_split_files_count=2"],
    "paths-split-builder": GO_BASE + ["-compress_paths", "-generate_simple_unions", "-generate_path_structs", "-split_pathstructs_by_module",
                                      "-base_import_path=example.com/verif/out", "-list_builder_key_threshold=1", "-trim_path_package_prefix=vpc-",
                                      "-simplify_wildcard_paths"],
}
PROTO_FLAGSETS = {
    "proto-flat": ["-generate_fakeroot", "-base_import_path=example.com/verif", "-go_package_base=example.com/verif/out"],
    "proto-hier-compress": ["-generate_fakeroot", "-compress_paths", "-package_hierarchy", "-base_import_path=example.com/verif", "-go_package_base=example.com/verif/out"],
    "proto-nofakeroot": ["-package_hierarchy", "-add_schemapaths=false", "-add_enumnames=false", "-base_import_path=example.com/verif"],
}

QUICK_COMBOS = [
    ("verif-oc", "go", "compress-rich-simple"), ("verif-oc", "go", "uncompressed-rich"), ("verif-oc", "go", "paths"), ("verif-oc", "proto", "proto-hier-compress"),
    ("verif-clash", "go", "compress-rich-simple"), ("verif-clash", "go", "uncompressed-rich"), ("verif-clash", "go", "paths"), ("verif-clash", "proto", "proto-hier-compress"),
    ("verif-action", "go", "compress-rich-simple"), ("verif-action", "go", "paths"), ("verif-action", "proto", "proto-hier-compress"),
    ("lab-telemetry", "proto", "proto-flat"), ("verif-unionshapes", "go", "compress-rich-simple"), ("verif-unionshapes", "proto", "proto-flat"),
    ("verif-choices", "go", "compress-rich-simple"), ("verif-choices", "go", "compress-opstate"), ("verif-choices", "go", "paths"),
    ("verif-sibling", "go", "uncompressed-rich"), ("verif-sibling", "proto", "proto-flat"),
    ("verif-pkgclash", "go", "paths-split-builder"), ("verif-pkgclash", "go", "paths-split"), ("verif-multi", "go", "paths-split-builder"),
    ("verif-multi", "go", "compress-rich-simple"), ("verif-multi", "go", "uncompressed-rich"), ("verif-multi", "proto", "proto-hier-compress"),
    ("cts", "go", "compress-rich-simple"), ("uts", "go", "uncompressed-rich"), ("tm-enum-module", "go", "compress-opstate"), ("tm-enum-union", "go", "compress-rich-simple"),
    ("tm-openconfig-simple", "go", "paths-split"), ("tm-openconfig-withlist", "go", "compress-wrapper"), ("oc-options", "go", "compress-excludestate"),
    ("pt-proto-test-a", "proto", "proto-flat"), ("pt-proto-enums", "proto", "proto-hier-compress"), ("tm-openconfig-complex", "proto", "proto-nofakeroot"),
    ("rand-1", "go", "compress-rich-simple"), ("rand-2", "go", "uncompressed-rich"), ("rand-3", "proto", "proto-hier-compress"), ("rand-4", "go", "paths"),
]


def all_combos():
    out = []
    for s in sorted(SCHEMAS):
        for f in sorted(GO_FLAGSETS):
            out.append((s, "go", f))
        for f in sorted(PROTO_FLAGSETS):
            out.append((s, "proto", f))
    return out


# --------------------------------------------------------------------------- random YANG modules

def random_module(seed, outdir):
    """A seeded YANG module generator aiming at the generators' ordering-sensitive spots: clashing
    enumeration / identity / typedef names, enumerations reached through unions and typedefs in several places,
    lists with several keys, augments and groupings used more than once, camel-case collisions."""
    r = random.Random(seed)
    name = "vr%d" % seed
    L = ["module %s {" % name, "  yang-version 1.1;", '  prefix "%s";' % name, '  namespace "urn:verif:rand:%d";' % seed, ""]
    idents = ["BASE-%d" % i for i in range(r.randint(1, 3))]
    for b in idents:
        L.append("  identity %s;" % b)
        for j in range(r.randint(2, 5)):
            L.append("  identity %s-%s { base %s; }" % (b, r.choice(["A", "B", "C", "ALPHA", "a-b", "A_B"]) + str(j), b))
    enum_vals = ["UP", "DOWN", "up-down", "UP_DOWN", "Up", "TESTING", "ONE", "TWO", "two", "X-1", "X_1"]
    tds = []
    for i in range(r.randint(2, 5)):
        tn = r.choice(["state", "State", "mode", "oper-state", "oper_state", "kind"]) + "-%d" % i
        tds.append(tn)
        vals = r.sample(enum_vals, r.randint(2, 5))
        kind = r.randint(0, 2)
        if kind == 0:
            L.append("  typedef %s { type enumeration { %s } }" % (tn, " ".join("enum %s;" % v for v in vals)))
        elif kind == 1:
            L.append("  typedef %s { type union { type enumeration { %s } type uint32; type string; } }" % (tn, " ".join("enum %s;" % v for v in vals)))
        else:
            L.append("  typedef %s { type identityref { base %s; } }" % (tn, r.choice(idents)))

    def leaf(nm):
        t = r.randint(0, 7)
        if t == 0:
            return "leaf %s { type %s; }" % (nm, r.choice(tds))
        if t == 1:
            vals = r.sample(enum_vals, r.randint(2, 4))
            return "leaf %s { type enumeration { %s } }" % (nm, " ".join("enum %s;" % v for v in vals))
        if t == 2:
            return "leaf %s { type union { type %s; type %s; type string; } }" % (nm, r.choice(tds), r.choice(["uint8", "int64", "boolean", "binary"]))
        if t == 3:
            return "leaf-list %s { type %s; }" % (nm, r.choice(["string", "uint32", r.choice(tds)]))
        if t == 4:
            return "leaf %s { type identityref { base %s; } }" % (nm, r.choice(idents))
        t2 = r.choice(["string", "uint8", "uint16", "uint32", "uint64", "int8", "int32", "boolean", "decimal64", "binary", "empty"])
        if t2 == "decimal64":
            return "leaf %s { type decimal64 { fraction-digits 3; } }" % nm
        return "leaf %s { type %s; }" % (nm, t2)

    names = ["name", "id", "index", "oper-state", "oper_state", "admin-state", "type", "kind", "value", "enabled", "mtu", "descr", "e-1", "e_1", "counter", "peer"]
    groups = []
    for gi in range(r.randint(1, 3)):
        gn = "grp-%d" % gi
        groups.append(gn)
        L.append("  grouping %s {" % gn)
        for nm in r.sample(names, r.randint(2, 6)):
            L.append("    " + leaf(nm))
        L.append("  }")

    def container(depth, idx):
        cn = r.choice(["box", "Box", "unit", "sys-tem", "sys_tem", "top"]) + "-%d-%d" % (depth, idx)
        out = ["container %s {" % cn]
        g = r.choice(groups)
        out.append("  container config { uses %s; }" % g)
        out.append("  container state { config false; uses %s; %s }" % (g, leaf("extra-%d" % idx)))
        for li in range(r.randint(0, 2)):
            ln = r.choice(["item", "entry", "peer", "if"]) + "-%d" % li
            keys = r.sample(["name", "id", "kind"], r.randint(1, 2))
            ktypes = {"name": "string", "id": "uint32", "kind": r.choice(tds)}
            out.append("  container %ss { list %s { key \"%s\"; %s" % (ln, ln, " ".join(keys), "ordered-by user;" if r.randint(0, 3) == 0 else ""))
            for k in keys:
                out.append("    leaf %s { type leafref { path \"../config/%s\"; } }" % (k, k))
            out.append("    container config { %s %s }" % (" ".join("leaf %s { type %s; }" % (k, ktypes[k]) for k in keys), leaf("val")))
            out.append("    container state { config false; %s %s %s }" % (" ".join("leaf %s { type %s; }" % (k, ktypes[k]) for k in keys), leaf("val"), leaf("seen")))
            if depth < 2 and r.randint(0, 2) == 0:
                out += ["    " + x for x in container(depth + 1, li)]
            out.append("  } }")
        if depth < 2:
            for ci in range(r.randint(0, 2)):
                out += ["  " + x for x in container(depth + 1, ci + 10)]
        out.append("}")
        return out

    for ti in range(r.randint(1, 3)):
        L += ["  " + x for x in container(0, ti)]
    # siblings whose names differ in YANG but collide as CamelCase Go / proto identifiers
    pairs = [("rate-limit", "rateLimit"), ("peer-group", "peerGroup"), ("q-o-s", "qOS"), ("sys-log", "sys_log"), ("if-index", "ifIndex")]
    L.append("  container clash-%d {" % seed)
    for a, b in r.sample(pairs, r.randint(1, 3)):
        names2 = [a, b]
        r.shuffle(names2)
        for nm in names2:
            if r.randint(0, 1) == 0:
                L.append("    container %s { %s %s }" % (nm, leaf("x-" + nm[:2]), leaf("val")))
            else:
                L.append("    container %ss { list %s { key \"name\"; leaf name { type leafref { path \"../config/name\"; } } container config { leaf name { type string; } %s } container state { config false; leaf name { type string; } %s } } }" % (nm, nm, leaf("val"), leaf("val")))
    L.append("  }")
    L.append("}")
    path = os.path.join(outdir, name + ".yang")
    with open(path, "w") as f:
        f.write("\n".join(L) + "\n")
    return path


# --------------------------------------------------------------------------- build

def build_gen():
    """Scratch copy with goyang vendored in, everything instrumented, the two generator binaries built."""
    rh = build.repo_hash()
    key = rh + "-" + build.verif_hash()
    base = os.path.join(build.CACHE_ROOT, key)
    with build.Lock(base + ".lock"):
        build.prune_caches(key)
        kd = os.path.join(base, "gen")
        stamp = os.path.join(kd, "BUILD_OK.json")
        if os.path.exists(stamp):
            return json.load(open(stamp))
        t0 = time.time()
        if os.path.exists(kd):
            shutil.rmtree(kd)
        copy = os.path.join(kd, "src")
        build.copy_repo(copy)
        build.inject_simrt(copy)
        build.inject_goyang(copy)
        pkgs = build.existing_pkgs(copy, build.GEN_PKGS + build.RUNTIME_PKGS)
        build.run([build.instr_bin(), "-dir", copy, "-mainhook", "-sites", os.path.join(kd, "sites-ygot.json")] + pkgs, cwd=copy)
        gy = os.path.join(copy, "verifgoyang")
        build.run([build.instr_bin(), "-dir", gy, "-prefix", "goyang/", "-sites", os.path.join(kd, "sites-goyang.json"), "./pkg/yang", "./pkg/indent"], cwd=gy)
        hg = os.path.join(copy, "verifhgen")
        shutil.copytree(os.path.join(VERIF, "sim", "hgen"), hg)
        hgenbin = os.path.join(kd, "hgen")
        genbin = os.path.join(kd, "generator")
        protobin = os.path.join(kd, "proto_generator")
        build.run(["go", "build", "-o", genbin, "./generator"], cwd=copy)
        build.run(["go", "build", "-o", protobin, "./proto_generator"], cwd=copy)
        build.run(["go", "build", "-o", hgenbin, "./verifhgen"], cwd=copy)
        sites = {}
        for f in ("sites-ygot.json", "sites-goyang.json"):
            d = json.load(open(os.path.join(kd, f)))
            for s in d["sites"]:
                if s["kind"] in ("range", "mapkeys", "maprange"):
                    sites[s["site"]] = s
        info = {"kind": "gen", "generator": genbin, "proto_generator": protobin, "hgen": hgenbin, "src": copy, "repo_hash": rh, "dir": kd,
                "n_sites": len(sites), "build_s": round(time.time() - t0, 1)}
        json.dump(sites, open(os.path.join(kd, "sites.json"), "w"))
        json.dump(info, open(stamp, "w"))
        return info


# --------------------------------------------------------------------------- one generation = one process

def combo_files(info, schema, workdir):
    if schema.startswith("rand-"):
        d = os.path.join(workdir, "randyang")
        os.makedirs(d, exist_ok=True)
        p = os.path.join(d, "vr%d.yang" % int(schema.split("-")[1]))
        if not os.path.exists(p):
            random_module(int(schema.split("-")[1]), d)
        return [p], [d]
    files, paths = SCHEMAS[schema]
    ab = lambda x: x if x.startswith("/") else os.path.join(info["src"], x)
    return [ab(f) for f in files], [ab(p) for p in paths]


_RELOCATE_LOCK = threading.Lock()


def generate(info, combo, mapmode, sites, outdir, workdir, keep=False, relocate=False):
    """Runs one generation in a fresh process. Returns (rc, {relpath: sha256}, stats, stderr_tail).
    keep: write into outdir as it is (files of an earlier generation are still there);
    relocate: run a copy of the generator binary that sits at another path."""
    schema, tool, flagset = combo
    files, paths = combo_files(info, schema, workdir)
    if os.path.exists(outdir) and not keep:
        shutil.rmtree(outdir)
    os.makedirs(outdir, exist_ok=True)
    if relocate:
        info = dict(info)
        d = os.path.join(workdir, "elsewhere", "bin-%d" % os.getpid())
        os.makedirs(d, exist_ok=True)
        for k in ("generator", "proto_generator"):
            dst = os.path.join(d, "renamed-" + os.path.basename(info[k]))
            with _RELOCATE_LOCK:
                if not os.path.exists(dst):
                    # a hard link gives the binary another path without ever holding it open for
                    # writing (a copy being written while another worker thread forks can still be
                    # open for writing in that child when it is executed: ETXTBSY)
                    try:
                        os.link(info[k], dst)
                    except OSError:
                        tmp = dst + ".part"
                        shutil.copy2(info[k], tmp)
                        os.rename(tmp, dst)
            info[k] = dst
    if tool == "go":
        flags = list(GO_FLAGSETS[flagset])
        cmd = [info["generator"], "-path=" + ",".join(paths), "-package_name=vout"] + flags
        multi = any(f.startswith("-structs_split_files_count") or f.startswith("-split_pathstructs_by_module") for f in flags)
        if multi:
            cmd += ["-output_dir=" + outdir]
            if "-split_pathstructs_by_module" in flags:
                cmd += ["-path_structs_output_file=paths.go"]
                # structs go to a single file next to the per-module path packages
                cmd = [c for c in cmd if not c.startswith("-output_dir=")] + ["-output_dir=" + outdir, "-generate_structs=false",
                                                                               "-schema_struct_path=example.com/verif/out/structs"]
        else:
            cmd += ["-output_file=" + os.path.join(outdir, "structs.go")]
            if "-generate_path_structs" in flags:
                cmd += ["-path_structs_output_file=" + os.path.join(outdir, "paths.go")]
    else:
        cmd = [info["proto_generator"], "-path=" + ",".join(paths), "-output_dir=" + outdir, "-package_name=vout"] + PROTO_FLAGSETS[flagset]
    cmd += files
    env = dict(os.environ)
    env["VERIF_MAP"] = mapmode
    env["TMPDIR"] = workdir  # glog writes its log files to os.TempDir(): keep them inside the scratch work directory
    statsf = os.path.join(workdir, "stats-%d.json" % os.getpid())
    env["VERIF_STATS"] = statsf
    if sites is not None:
        sf = os.path.join(workdir, "sites-%d.txt" % os.getpid())
        open(sf, "w").write(",".join(sites))
        env["VERIF_SITES"] = "@" + sf
    else:
        env.pop("VERIF_SITES", None)
    cwd = workdir
    if relocate:
        # ... and the process differs in everything else a process brings along that is not one of
        # the generator's inputs: working directory (all paths given are absolute), time zone,
        # locale, home directory, user name
        cwd = os.path.dirname(info["generator"])
        # YANGPATH is what the goyang command line tool searches; it names a directory holding other
        # versions of modules and is not one of the generator's inputs
        env["YANGPATH"] = os.path.join(S, "sibling-decoy")
        env.update({"TZ": "Pacific/Kiritimati", "LANG": "tr_TR.UTF-8", "LC_ALL": "tr_TR.UTF-8", "HOME": cwd, "USER": "someone-else", "PWD": cwd})
    try:
        for attempt in range(50):
            try:
                p = subprocess.run(cmd, cwd=cwd, env=env, stdout=subprocess.PIPE, stderr=subprocess.PIPE, text=True, timeout=900)
                break
            except OSError as e:
                if e.errno != errno.ETXTBSY or attempt == 49:
                    raise
                time.sleep(0.1)  # harness trouble, not the generator's: the binary was still open for writing somewhere
    except subprocess.TimeoutExpired:
        return -9, {}, {}, "generator process did not finish within 900 s"
    digests = {}
    for root, _, fs in os.walk(outdir):
        for f in fs:
            fp = os.path.join(root, f)
            digests[os.path.relpath(fp, outdir)] = hashlib.sha256(open(fp, "rb").read()).hexdigest()
    stats = {}
    if os.path.exists(statsf):
        try:
            stats = json.load(open(statsf))
        except ValueError:
            stats = {}
        os.unlink(statsf)
    return p.returncode, digests, stats, (p.stderr or "")[-1500:]


def first_diff(refdir, outdir, ref, got):
    for f in sorted(set(ref) | set(got)):
        if ref.get(f) != got.get(f):
            if f not in ref:
                return f, "file exists only in this run"
            if f not in got:
                return f, "file missing in this run"
            a = open(os.path.join(refdir, f), "rb").read()
            b = open(os.path.join(outdir, f), "rb").read()
            n = min(len(a), len(b))
            i = next((k for k in range(n) if a[k] != b[k]), n)
            lo = max(0, i - 80)
            return f, "first difference at byte %d:\n    reference: …%r\n    this run:  …%r" % (i, a[lo:i + 120].decode("utf8", "replace"), b[lo:i + 120].decode("utf8", "replace"))
    return None, ""


# --------------------------------------------------------------------------- the check

def ddmin_sites(info, combo, mode, sites, ref, workdir, budget=40):
    """Smallest set of sites that, when allowed to deviate from canonical order, still changes the output."""
    def differs(sub):
        out = os.path.join(workdir, "min-out")
        rc, got, _, _ = generate(info, combo, mode, sub, out, workdir)
        return rc != 0 or got != ref
    items = list(sites)
    b = [budget]
    return checks._ddmin(items, differs, b), budget - b[0]


# flag sets for which the in-process leg (hgen) has an equivalent library configuration: tool, compress
INPROC_FLAGSETS = {"compress-rich-simple": ("go", True), "uncompressed-rich": ("go", False), "paths": ("path", True), "proto-hier-compress": ("proto", True),
                   "proto-flat": ("proto", False)}



HGEN_VARIANTS = {"go": ["a", "b", "c"], "path": ["a", "b", "c", "d"], "proto": ["a", "b", "c"]}


def hgen_run(info, combo, seq, modes, outdir, workdir):
    """One process generating len(seq) times. Returns the list of per-generation records (ok, sha, ...), or None."""
    tool2, compress = INPROC_FLAGSETS[combo[2]]
    files, paths = combo_files(info, combo[0], workdir)
    if os.path.exists(outdir):
        shutil.rmtree(outdir)
    env = dict(os.environ)
    for k in ("VERIF_MAP", "VERIF_SITES", "VERIF_STATS"):
        env.pop(k, None)
    env["TMPDIR"] = workdir
    try:
        p = subprocess.run([info["hgen"], "-tool", tool2, "-compress=%s" % ("true" if compress else "false"), "-path", ",".join(paths),
                            "-seq", ",".join(seq), "-modes", ",".join(modes), "-out", outdir] + files,
                           cwd=workdir, env=env, stdout=subprocess.PIPE, stderr=subprocess.PIPE, text=True, timeout=1800)
    except subprocess.TimeoutExpired:
        return None
    try:
        return json.loads(p.stdout.strip().splitlines()[-1])["gens"]
    except (ValueError, IndexError, KeyError):
        return None


def hgen_refs(info, combo, workdir, variants):
    """Every variant generated alone in a fresh process, canonical order: {variant: (sha, file)} for those that generate."""
    refs = {}
    for v in variants:
        od = os.path.join(workdir, "hg-ref-" + v)
        g = hgen_run(info, combo, [v], ["canon"], od, workdir)
        if g and g[0].get("ok"):
            refs[v] = (g[0]["sha"], os.path.join(od, "0.txt"))
    return refs


def hgen_check_seq(info, combo, seq, modes, refs, workdir):
    """Runs the sequence in one process; returns None or (index, detail) of the first generation that differs from its fresh-process reference."""
    od = os.path.join(workdir, "hg-seq")
    g = hgen_run(info, combo, seq, modes, od, workdir)
    if g is None:
        return (-1, "hgen produced no result")
    for i, rec in enumerate(g):
        v = seq[i]
        if rec.get("changed_later"):
            return (i, "the result of generation %d (variant %s), still held by the caller, reads differently after the later generations of the process have run (it aliases memory that a later generation reuses)" % (i, v))
        if not rec.get("ok"):
            return (i, "generation %d (variant %s, %s) fails although the same configuration generates in a fresh process: %s" % (i, v, modes[i], rec.get("err")))
        if rec["sha"] != refs[v][0]:
            a = open(refs[v][1], "rb").read()
            b = open(os.path.join(od, "%d.txt" % i), "rb").read()
            n = min(len(a), len(b))
            k = next((j for j in range(n) if a[j] != b[j]), n)
            lo = max(0, k - 80)
            return (i, "generation %d of the process (variant %s, map order %s) differs from what the same configuration gives as the only generation of a fresh process; "
                       "first difference at byte %d:\n    fresh process: …%r\n    this process:  …%r" % (i, v, modes[i], k, a[lo:k + 120].decode("utf8", "replace"), b[lo:k + 120].decode("utf8", "replace")))
    return None


def inproc_sig(tool2, seq, modes, idx, detail=""):
    if "still held by the caller" in detail:
        return "C25:%s:same-process:earlier-result-changed" % tool2
    if any(v != seq[idx] for v in seq[:idx]):
        kind = "after-other-configuration"
    elif idx > 0 and modes[idx] == "canon":
        kind = "second-run"
    else:
        kind = "random-order"
    return "C25:%s:same-process:%s" % (tool2, kind)


def inproc_leg(info, combo, tier, r, workdir, res):
    tool2, _ = INPROC_FLAGSETS[combo[2]]
    refs = hgen_refs(info, combo, workdir, HGEN_VARIANTS[tool2])
    res["runs"] += len(HGEN_VARIANTS[tool2])
    if "a" not in refs:
        return
    usable = sorted(refs)
    seqs = [(["a", "a", "a"], ["canon", "canon", "rand:%d" % r.randrange(1, 1 << 40)])]
    for _ in range(2 if tier == "quick" else 8):
        n = r.randint(2, 4)
        seq = [r.choice(usable) for _ in range(n)]
        if len(usable) > 1 and len(set(seq)) == 1:
            seq[0] = r.choice([v for v in usable if v != seq[-1]])
        modes = [r.choice(["canon", "canon", "rev", "rand:%d" % r.randrange(1, 1 << 40)]) for _ in range(n)]
        seqs.append((seq, modes))
    for seq, modes in seqs:
        bad = hgen_check_seq(info, combo, seq, modes, refs, workdir)
        res["runs"] += len(seq)
        res["fired"]["same-process-regeneration"] = res["fired"].get("same-process-regeneration", 0) + len(seq) - 1
        res["fired"]["same-process-after-other-configuration"] = res["fired"].get("same-process-after-other-configuration", 0) + sum(
            1 for i in range(1, len(seq)) if any(v != seq[i] for v in seq[:i]))
        if bad is None:
            continue
        # the sequence is seeded: the same sequence must misbehave again before anything is concluded
        bad2 = hgen_check_seq(info, combo, seq, modes, refs, workdir)
        res["runs"] += len(seq)
        if bad2 is None:
            res.setdefault("unreproducible", []).append({"combo": list(combo), "map": "inproc", "seq": seq, "modes": modes, "detail": bad[1][:300]})
            log("C25: an in-process deviation did not repeat when the same sequence was re-executed (%s %s)" % (combo, seq))
            continue
        idx, detail = bad2
        if idx < 0:
            res["skipped_inproc"] = detail
            return
        sig = inproc_sig(tool2, seq, modes, idx, detail)
        if sig.endswith("earlier-result-changed"):
            # needs the generations after idx as well: reported with the whole sequence
            res["violations"].append({"combo": list(combo), "map": "inproc", "sites": None, "rc": 0, "file": "(in-process, %s)" % tool2, "inproc": True,
                                      "seq": seq, "modes": modes, "inproc_sig": sig, "detail": "sequence %s with map orders %s: %s" % (",".join(seq), ",".join(modes), detail)})
            return
        # minimise: drop earlier generations while the same class of violation persists at the last one
        seq, modes = seq[:idx + 1], modes[:idx + 1]
        i = 0
        while i < len(seq) - 1:
            cs, cm = seq[:i] + seq[i + 1:], modes[:i] + modes[i + 1:]
            b2 = hgen_check_seq(info, combo, cs, cm, refs, workdir)
            res["runs"] += len(cs)
            if b2 is not None and b2[0] == len(cs) - 1 and inproc_sig(tool2, cs, cm, b2[0]) == sig:
                seq, modes, detail = cs, cm, b2[1]
            else:
                i += 1
        if modes[-1] != "canon":
            b2 = hgen_check_seq(info, combo, seq, modes[:-1] + ["canon"], refs, workdir)
            if b2 is not None and b2[0] == len(seq) - 1 and inproc_sig(tool2, seq, modes[:-1] + ["canon"], b2[0]) == sig:
                modes, detail = modes[:-1] + ["canon"], b2[1]
        res["violations"].append({"combo": list(combo), "map": "inproc", "sites": None, "rc": 0, "file": "(in-process, %s)" % tool2, "inproc": True,
                                  "seq": seq, "modes": modes, "inproc_sig": sig, "detail": "sequence %s with map orders %s: %s" % (",".join(seq), ",".join(modes), detail)})
        return


def run_combo(args):
    info, combo, tier, seed, workroot = args
    schema, tool, flagset = combo
    t0 = time.time()
    workdir = tempfile.mkdtemp(prefix="c25-", dir=workroot)
    res = {"combo": list(combo), "runs": 0, "violations": [], "sites_multi": [], "fired": {}, "skipped": None, "orders": []}
    try:
        refdir = os.path.join(workdir, "ref")
        rc, ref, st, err = generate(info, combo, "canon", None, refdir, workdir)
        res["runs"] += 1
        if rc != 0 or not ref:
            res["skipped"] = "reference generation failed (schema/flag combination not supported): " + err.strip().splitlines()[-1][:200] if err.strip() else "no output"
            return res
        # the canonical plan once more: identical plan, identical bytes
        ref2dir = os.path.join(workdir, "ref2")
        rcb, refb, _, errb = generate(info, combo, "canon", None, ref2dir, workdir)
        res["runs"] += 1
        res["fired"]["identical-plan-repeated"] = 1
        if rcb == 0 and refb != ref:
            f, detail = first_diff(refdir, ref2dir, ref, refb)
            res["violations"].append({"combo": list(combo), "map": "canon", "sites": None, "rc": 0, "file": f, "identical_plan": True,
                                      "detail": "two executions of the canonical plan ended normally with different output; " + detail})
            return res
        multi = sorted(s for s, n in (st.get("multi") or {}).items() if n > 0)
        res["sites_multi"] = multi
        res["sites_visited"] = sorted((st.get("visits") or {}).keys())
        res["files"] = len(ref)
        r = random.Random(int(hashlib.sha256(repr((seed,) + tuple(combo)).encode()).hexdigest()[:12], 16))
        plans = [("rev", None)]
        nrand = 4 if tier == "quick" else 24
        for _ in range(nrand):
            plans.append(("rand:%d" % r.randrange(1, 1 << 40), None))
        plans += [("pass", None), ("pass", None)]
        sweep = multi if tier == "thorough" else r.sample(multi, min(len(multi), 10))
        for s in sweep:
            plans.append(("rev", [s]))
        for mode, sites in plans:
            out = os.path.join(workdir, "out")
            rc, got, st2, err = generate(info, combo, mode, sites, out, workdir)
            res["runs"] += 1
            kind = "single-site-reversal" if sites else {"rev": "all-sites-reversed", "pass": "runtime-native-order"}.get(mode, "seeded-permutation")
            res["fired"][kind] = res["fired"].get(kind, 0) + 1
            res["fired"]["site_order_deviations"] = res["fired"].get("site_order_deviations", 0) + sum((st2.get("deviated") or {}).values())
            if len(res["orders"]) < 3:
                res["orders"].append({"map": mode, "sites": sites, "deviating_sites": len(st2.get("deviated") or {}), "map_events": st2.get("map_events")})
            if rc == 0 and got == ref:
                continue
            if mode != "pass" or rc != 0:
                # A generation is a function of its inputs and of the map-order plan, both fixed here: the same plan is
                # executed once more before anything is concluded. A deviation that does not come back was caused by the
                # environment of that one process (killed, out of memory, a full disk under a loaded machine), not by the
                # generator; it is recorded in the evidence and not reported.
                out2 = os.path.join(workdir, "out2")
                rc2, got2, _, err2 = generate(info, combo, mode, sites, out2, workdir)
                res["runs"] += 1
                if rc2 == 0 and got2 == ref:
                    if rc == 0 and got:
                        # both executions of one plan ended normally and produced different bytes: that is the property
                        # itself failing (something the map-order seam does not control - goroutines, addresses, time - reached
                        # the output), whether or not it can be made to happen again at will
                        f, detail = first_diff(out2, out, got2, got)
                        res["violations"].append({"combo": list(combo), "map": mode, "sites": sites, "rc": 0, "file": f, "identical_plan": True,
                                                  "detail": "two executions of the same plan (map order %s, sites %s) ended normally with different output; %s" % (mode, sites, detail)})
                        break
                    res.setdefault("unreproducible", []).append({"combo": list(combo), "map": mode, "sites": sites, "rc": rc, "stderr": err[-300:]})
                    log("C25: a failing generation did not repeat when re-executed with the same plan (rc=%s, %s %s %s): %s" % (rc, combo, mode, sites, err[-200:].strip()))
                    continue
                rc, got, err = rc2, got2, err2
            f, detail = first_diff(refdir, out, ref, got)
            v = {"combo": list(combo), "map": mode, "sites": sites, "rc": rc, "file": f, "detail": detail, "stderr": err[-400:] if rc != 0 else ""}
            if mode != "pass":
                cand = sites if sites else (sorted((st2.get("deviated") or {}).keys()) or multi)
                minimal, used = ddmin_sites(info, combo, mode, cand, ref, workdir)
                v["minimal_sites"] = minimal
                v["minimise_runs"] = used
                res["runs"] += used
            res["violations"].append(v)
            break
        if not res["violations"]:
            # the disk and the process as schedule dimensions: (1) the output directory already holds the files
            # of an earlier, longer generation (every reference file with a tail appended, plus one file that
            # this generation does not produce); (2) the generator binary sits at another path
            stale = os.path.join(workdir, "stale")
            if os.path.exists(stale):
                shutil.rmtree(stale)
            shutil.copytree(refdir, stale)
            for root, _, fs in os.walk(stale):
                for f in fs:
                    with open(os.path.join(root, f), "ab") as fh:
                        fh.write(b"\n// tail of a longer file written by an earlier generation\n" * 40)
            rc, got, _, err = generate(info, combo, "canon", None, stale, workdir, keep=True)
            res["runs"] += 1
            res["fired"]["output-directory-holds-longer-files"] = res["fired"].get("output-directory-holds-longer-files", 0) + 1
            if rc != 0 or got != ref:
                f, detail = first_diff(refdir, stale, ref, got)
                res["violations"].append({"combo": list(combo), "map": "canon", "sites": None, "rc": rc, "file": f, "environment": "stale-output-directory",
                                          "detail": "generating into a directory that already holds longer files of the same names gives different files than generating into an empty one; " + detail})
            else:
                out = os.path.join(workdir, "out-reloc")
                rc, got, _, err = generate(info, combo, "canon", None, out, workdir, relocate=True)
                res["runs"] += 1
                res["fired"]["generator-binary-at-another-path"] = res["fired"].get("generator-binary-at-another-path", 0) + 1
                res["fired"]["other-working-directory-timezone-locale-home-user-yangpath"] = res["fired"].get("other-working-directory-timezone-locale-home-user-yangpath", 0) + 1
                if rc != 0 or got != ref:
                    f, detail = first_diff(refdir, out, ref, got)
                    res["violations"].append({"combo": list(combo), "map": "canon", "sites": None, "rc": rc, "file": f, "environment": "relocated-binary",
                                              "detail": "the same generator binary at another path, run from another working directory with another time zone, locale, home, user and YANGPATH, produces different output; " + detail})
        if not res["violations"] and flagset in INPROC_FLAGSETS:
            inproc_leg(info, combo, tier, r, workdir, res)
        res["wall_s"] = round(time.time() - t0, 2)
        return res
    finally:
        shutil.rmtree(workdir, ignore_errors=True)


def check(pid, tier, seed):
    from concurrent.futures import ThreadPoolExecutor
    t0 = time.time()
    info = build_gen()
    workroot = tempfile.mkdtemp(prefix="verif-c25-", dir=build.SCRATCH)
    try:
        if tier == "quick":
            combos = list(QUICK_COMBOS)
        else:
            combos = all_combos() + [("rand-%d" % (seed * 1000 + i), t, f) for i in range(1, 41)
                                     for (t, f) in [("go", "compress-rich-simple"), ("go", "uncompressed-rich"), ("go", "paths"), ("proto", "proto-hier-compress")]]
        with ThreadPoolExecutor(max_workers=min(16, checks.NCPU)) as ex:
            results = list(ex.map(run_combo, [(info, c, tier, seed, workroot) for c in combos]))
    finally:
        shutil.rmtree(workroot, ignore_errors=True)
    allsites = json.load(open(os.path.join(info["dir"], "sites.json")))
    seen_multi = set()
    visited = set()
    fired = {}
    runs = 0
    skipped = []
    viols = []
    unrepro = []
    distinct = set()
    samples = []
    for r in results:
        runs += r["runs"]
        if r["skipped"]:
            skipped.append({"combo": r["combo"], "why": r["skipped"]})
            continue
        seen_multi.update(r["sites_multi"])
        visited.update(r.get("sites_visited", []))
        for k, v in r["fired"].items():
            fired[k] = fired.get(k, 0) + v
        viols += r["violations"]
        unrepro += r.get("unreproducible", [])
        if r["sites_multi"]:
            distinct.add(tuple(r["combo"]))
        if len(samples) < 4:
            samples.append({"combo": r["combo"], "files_compared": r.get("files"), "sites_with_2plus_keys": len(r["sites_multi"]), "runs": r["runs"], "orders": r["orders"]})
    gen_pkgs = ("ygen/", "gogen/", "protogen/", "ypathgen/", "genutil/", "generator/", "proto_generator/", "goyang/", "internal/igenutil/")
    gen_sites = [s for s in allsites if s.startswith(gen_pkgs)]
    try:
        unmodelled = [u for u in (json.load(open(os.path.join(info["dir"], "sites-ygot.json"))).get("unmodelled_sync") or []) if u.startswith(gen_pkgs + ("util/", "ygot/"))]
    except (OSError, ValueError):
        unmodelled = []
    never_multi = sorted(s for s in gen_sites if s not in seen_multi)
    wall = time.time() - t0
    new, known = [], []
    os.makedirs(REPLAYS, exist_ok=True)
    by_sig = {}
    for v in viols:
        key_sites = v.get("minimal_sites") or v.get("sites") or []
        sig = "C25:" + v["combo"][1] + ":" + ("+".join(key_sites) if key_sites else ("native-order" if v["map"] == "pass" else "unminimised"))
        if v.get("environment"):
            sig = "C25:" + v["combo"][1] + ":" + v["environment"]
        if v.get("identical_plan"):
            sig = "C25:" + v["combo"][1] + ":identical-plan-different-output"
        if v.get("inproc"):
            sig = v["inproc_sig"]
        v["signature"] = sig
        if sig not in by_sig:
            by_sig[sig] = v
    for sig, v in sorted(by_sig.items()):
        safe = "".join(ch if ch.isalnum() else "_" for ch in sig)[:70]
        path = os.path.join(REPLAYS, "C25-%s.json" % safe)
        case = {"property": "C25", "combo": v["combo"], "map": v["map"], "sites": v.get("minimal_sites") or v.get("sites"), "inproc": bool(v.get("inproc")),
                "seq": v.get("seq"), "modes": v.get("modes"), "identical_plan": bool(v.get("identical_plan")), "environment": v.get("environment")}
        json.dump({"property": "C25", "seed": seed, "violation": {"property": "C25", "oracle": "output-differs", "signature": sig,
                                                                   "msg": "output file %s differs from the canonical-order reference: %s" % (v["file"], v["detail"])},
                   "case": case, "repo_hash": info["repo_hash"], "how_to_replay": "./verifctl replay %s" % os.path.relpath(path, VERIF)}, open(path, "w"), indent=1)
        k = checks.match_known("C25", sig)
        (known if k else new).append((k, v, path))
    cov = {
        "evaluations": runs,
        "distinct_nontrivial": len(distinct),
        "rule": "one evaluation = one run of the real generator / proto_generator binary in a fresh OS process on one (schema set, tool, flag set) combination under one "
                "map-iteration schedule (canonical reference, all sites reversed, seeded permutations, the runtime's own order twice, and every chosen site reversed alone); "
                "all output files are compared byte for byte with the reference; in addition the generators run as libraries in seeded sequences of 2-4 generations inside one process "
                "(configuration variants and map orders mixed; each generation counts as one evaluation) and every generation is compared with the output of the same "
                "configuration as the only generation of a fresh process; distinct non-trivial = combinations in which at least one map-iteration site saw two or more keys",
        "samples": samples or [{"note": "no combination produced output"}],
        "simulated_runs": runs,
        "runs_per_hour": int(runs / wall * 3600) if wall > 0 else 0,
        "simulated_time": "not applicable: the generators read no clock",
        "combinations": len(results), "combinations_skipped": skipped[:20], "n_combinations_skipped": len(skipped),
        "faults_fired": fired,
        "map_iteration_sites": {"instrumented_in_generator_packages": len(gen_sites), "instrumented_total": len(allsites), "visited": len(visited), "seen_with_two_or_more_keys": len(seen_multi)},
        "coverage_gaps": {"sites_never_seen_with_two_or_more_keys": never_multi[:60], "count": len(never_multi)},
        "components": {"real_code": ["generator and proto_generator binaries built from the instrumented copy of /repo's working tree", "ygen, gogen, protogen, ypathgen, genutil, ygot, util", "goyang (vendored copy, instrumented)", "go/format, text/template, protobuf"],
                       "simulated_or_stubbed": ["map iteration order at every `range`-over-map / reflect MapKeys / MapRange site (simrt seam)", "process boundary: every generation is a fresh process, or a chosen position in a seeded sequence of generations inside one process (hgen driver)"]},
        "known_findings_hit": [k["signature"] for k, _, _ in known],
        "exhaustive_single_site_sweep": tier == "thorough",
        "concurrency_outside_the_simulators_control": {"goroutines_channels_atomics_in_generator_packages": unmodelled[:20], "count": len(unmodelled),
                                                       "note": "empty on the unchanged tree: map order and process state are then the only schedule; if not empty, only the identical-plan repetitions can notice its effect"},
        "deviations_not_repeated_on_reexecution": {"count": len(unrepro), "first": unrepro[:5]},
    }
    checks.write_evidence(pid, tier, seed, cov, [
        "sampling of permutations (plus, in the thorough tier, the exhaustive single-site reversal sweep); nondeterminism that is neither map order nor process state has no source in these packages (no goroutines, no clock)",
        "sites that never see two keys on this corpus are listed as a coverage gap",
    ], wall, len(new))
    for k, v, path in known:
        print("KNOWN-FINDING: property=C25 %s [%s] replay=%s" % (k.get("what", ""), k["signature"], os.path.relpath(path, VERIF)))
    for _, v, path in new:
        print("VIOLATION property=C25 replay=%s" % path)
        print("  combo=%s map=%s sites=%s\n  %s: %s" % (v["combo"], v["map"], v.get("minimal_sites") or v.get("sites"), v["file"], v["detail"][:700]))
    log("C25 %s: %d generator runs over %d combinations (%d skipped), %d sites seen with >=2 keys of %d, %d new violation(s), %d known, %.1fs" % (
        tier, runs, len(results), len(skipped), len(seen_multi), len(allsites), len(new), len(known), wall))
    if runs == 0 or len(distinct) < 2:
        log("too little was exercised: exit 2")
        return 2
    return 1 if new else 0


def replay(path, doc):
    info = build_gen()
    case = doc["case"]
    combo = tuple(case["combo"])
    workdir = tempfile.mkdtemp(prefix="verif-c25r-", dir=build.SCRATCH)
    try:
        if case.get("inproc"):
            seq, modes = case["seq"], case["modes"]
            refs = hgen_refs(info, combo, workdir, sorted(set(seq)))
            missing = [v for v in set(seq) if v not in refs]
            if missing:
                log("replay: variant(s) %s do not generate in a fresh process" % missing)
                return 2
            bad = hgen_check_seq(info, combo, seq, modes, refs, workdir)
            if bad is None:
                print("replay: every generation of the sequence %s equals its fresh-process reference (no violation)" % ",".join(seq))
                return 0
            print("replay: " + bad[1])
            print("VIOLATION property=C25 replay=%s" % path)
            return 1
        if case.get("identical_plan"):
            first = None
            for i in range(8):
                od = os.path.join(workdir, "rep%d" % i)
                rc, got, _, err = generate(info, combo, case["map"], case.get("sites"), od, workdir)
                if rc != 0:
                    log("replay: generation failed: " + err)
                    return 2
                if first is None:
                    first, firstdir = got, od
                elif got != first:
                    f, detail = first_diff(firstdir, od, first, got)
                    print("replay: execution %d of the same plan differs from the first: %s %s" % (i + 1, f, detail))
                    print("VIOLATION property=C25 replay=%s" % path)
                    return 1
            print("replay: 8 executions of the plan gave identical output (no violation this time; the cause is not under the simulator's control)")
            return 0
        refdir = os.path.join(workdir, "ref")
        rc, ref, _, err = generate(info, combo, "canon", None, refdir, workdir)
        if rc != 0:
            log("reference generation failed: " + err)
            return 2
        out = os.path.join(workdir, "out")
        if case.get("environment") == "stale-output-directory":
            shutil.copytree(refdir, out)
            for root, _, fs in os.walk(out):
                for f in fs:
                    with open(os.path.join(root, f), "ab") as fh:
                        fh.write(b"\n// tail of a longer file written by an earlier generation\n" * 40)
            rc, got, st, err = generate(info, combo, "canon", None, out, workdir, keep=True)
        elif case.get("environment") == "relocated-binary":
            rc, got, st, err = generate(info, combo, "canon", None, out, workdir, relocate=True)
        else:
            rc, got, st, err = generate(info, combo, case["map"], case.get("sites"), out, workdir)
        if rc == 0 and got == ref:
            print("replay: output identical to the canonical-order reference (no violation)")
            return 0
        f, detail = first_diff(refdir, out, ref, got)
        print("replay: %s differs: %s" % (f, detail))
        print("VIOLATION property=C25 replay=%s" % path)
        return 1
    finally:
        shutil.rmtree(workdir, ignore_errors=True)


checks.SPECIAL["C25"] = check
checks.SPECIAL_REPLAY["C25"] = replay
