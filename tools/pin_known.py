#!/usr/bin/env python3
"""usage: tools/pin_known.py <replay.json> <known_cases/NAME.json>
Turns a replay file written by a check into the pinned reproduction of a known finding
(known_findings.json field "case"). To be re-run whenever the harness's generators change what a
seed produces (the pinned case then stops reproducing and the check says so in its log)."""
import json, sys
src, dst = sys.argv[1], sys.argv[2]
d = json.load(open(src))
out = {"property": d["property"], "seed": d.get("seed"), "signature": d["violation"]["signature"], "violation": d["violation"], "case": d["case"],
       "note": "pinned reproduction of the known finding; replayed at the start of every %s check" % d["property"]}
json.dump(out, open(dst, "w"), indent=1)
print("pinned", dst, out["signature"])
