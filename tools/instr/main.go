// Command instr rewrites a scratch copy of Go packages so that every source of
// nondeterminism the verification harness cares about goes through the simrt seam:
//
//   - `for k, v := range m` over a map      -> range simrt.MapSeq(site, m)
//   - reflect.Value.MapKeys()/MapRange()     -> simrt.MapKeys / simrt.MapRange
//   - sync.(RW)Mutex Lock/RLock              -> simrt.Lock / simrt.RLock (TryLock + yield)
//   - (with -yield) simrt.Yield(site) at function entry and before stores through
//     selector / index / pointer expressions
//   - (with -mainhook) `defer simrt.AtExit()` at the start of func main
//
// It edits by byte offsets on the original source, so comments and formatting are
// untouched and every site keeps the line number of the unmodified tree.
//
// It is only ever run on a scratch copy, never on /repo.
package main

import (
	"encoding/json"
	"flag"
	"fmt"
	"go/ast"
	"go/token"
	"go/types"
	"os"
	"path/filepath"
	"sort"
	"strings"

	"golang.org/x/tools/go/packages"
)

type edit struct {
	off  int
	del  int
	text string
	seq  int
}

type siteInfo struct {
	Site string `json:"site"`
	Kind string `json:"kind"`
	Type string `json:"type,omitempty"`
	Pkg  string `json:"pkg"`
	Func string `json:"func,omitempty"`
}

const simImport = "verifsim/simrt"

func main() {
	dir := flag.String("dir", "", "module root of the scratch copy")
	doYield := flag.Bool("yield", false, "insert simrt.Yield points")
	mainHook := flag.Bool("mainhook", false, "insert defer simrt.AtExit() into func main")
	sitesOut := flag.String("sites", "", "write the list of instrumented sites (JSON) here")
	prefix := flag.String("prefix", "", "prefix prepended to every site id")
	resetPkgs := flag.String("resetglobals", "", "comma separated import-path suffixes of packages whose package-level variables get a re-initialiser registered with simrt.RegisterReset (a simulated process restart)")
	flag.Parse()
	pats := flag.Args()
	if *dir == "" || len(pats) == 0 {
		fmt.Fprintln(os.Stderr, "usage: instr -dir <root> [-yield] [-mainhook] [-sites f] pkgs...")
		os.Exit(2)
	}
	absdir, err := filepath.Abs(*dir)
	if err != nil {
		fatal(err)
	}
	cfg := &packages.Config{
		Mode: packages.NeedName | packages.NeedFiles | packages.NeedSyntax | packages.NeedTypes |
			packages.NeedTypesInfo | packages.NeedImports | packages.NeedDeps,
		Dir:   absdir,
		Tests: false,
	}
	pkgs, err := packages.Load(cfg, pats...)
	if err != nil {
		fatal(err)
	}
	counts := map[string]int{}
	var sites []siteInfo
	var unmodelled []string
	var resetFuncs []string
	bad := false
	for _, p := range pkgs {
		if len(p.Errors) > 0 {
			fmt.Fprintf(os.Stderr, "instr: package %s has errors: %v\n", p.PkgPath, p.Errors[0])
			bad = true
			continue
		}
		if strings.HasSuffix(p.PkgPath, "/simrt") {
			continue
		}
		for _, f := range p.Syntax {
			fn := p.Fset.Position(f.Pos()).Filename
			if strings.HasSuffix(fn, "_test.go") || !strings.HasPrefix(fn, absdir+string(os.PathSeparator)) {
				continue
			}
			src, err := os.ReadFile(fn)
			if err != nil {
				fatal(err)
			}
			if strings.Contains(string(src), "\""+simImport+"\"") {
				// already instrumented (shared file between patterns)
				continue
			}
			var edits []edit
			seq := 0
			add := func(pos token.Pos, del int, text string) {
				seq++
				edits = append(edits, edit{p.Fset.Position(pos).Offset, del, text, seq})
			}
			rawSite := func(pos token.Pos) string {
				ps := p.Fset.Position(pos)
				rel, _ := filepath.Rel(absdir, ps.Filename)
				return fmt.Sprintf("%s%s:%d", *prefix, rel, ps.Line)
			}
			// a line may hold several sites of one kind: disambiguate with a column suffix
			usedSite := map[string]bool{}
			site := func(kind string, pos token.Pos) string {
				s := rawSite(pos)
				if usedSite[kind+s] {
					s = fmt.Sprintf("%s.%d", s, p.Fset.Position(pos).Column)
				}
				usedSite[kind+s] = true
				return s
			}
			q := func(s string) string { return fmt.Sprintf("%q", s) }

			parents := map[ast.Node]ast.Node{}
			var stack []ast.Node
			ast.Inspect(f, func(n ast.Node) bool {
				if n == nil {
					stack = stack[:len(stack)-1]
					return true
				}
				if len(stack) > 0 {
					parents[n] = stack[len(stack)-1]
				}
				stack = append(stack, n)
				return true
			})
			enclosingFunc := func(n ast.Node) string {
				for x := n; x != nil; x = parents[x] {
					if fd, ok := x.(*ast.FuncDecl); ok {
						return fd.Name.Name
					}
				}
				return ""
			}
			inStmtList := func(s ast.Stmt) bool {
				switch par := parents[s].(type) {
				case *ast.BlockStmt:
					return true
				case *ast.CaseClause:
					for _, b := range par.Body {
						if b == s {
							return true
						}
					}
				case *ast.CommClause:
					for _, b := range par.Body {
						if b == s {
							return true
						}
					}
				}
				return false
			}
			// a preemption point in front of the statement that performs a synchronisation
			// operation the lock shims do not model (sync/atomic, sync.Map, sync.Once ...): that is
			// where lock-free code is sensitive to interleaving
			yieldedStmt := map[ast.Node]bool{}
			syncYield := func(call ast.Node) {
				if !*doYield {
					return
				}
				for x := call; x != nil; x = parents[x] {
					st, ok := x.(ast.Stmt)
					if !ok || !inStmtList(st) {
						if _, isFn := x.(*ast.FuncLit); isFn {
							return
						}
						continue
					}
					if !yieldedStmt[st] {
						yieldedStmt[st] = true
						add(st.Pos(), 0, "simrt.Yield("+q(site("sync", call.Pos()))+");")
						counts["yield-sync"]++
					}
					return
				}
			}
			ast.Inspect(f, func(n ast.Node) bool {
				switch x := n.(type) {
				case *ast.RangeStmt:
					t := p.TypesInfo.TypeOf(x.X)
					if t == nil {
						return true
					}
					if _, isTP := t.(*types.TypeParam); isTP {
						return true
					}
					if _, ok := t.Underlying().(*types.Map); ok {
						s := site("range", x.Pos())
						add(x.X.Pos(), 0, "simrt.MapSeq("+q(s)+", ")
						add(x.X.End(), 0, ")")
						counts["range"]++
						sites = append(sites, siteInfo{s, "range", t.String(), p.PkgPath, enclosingFunc(x)})
					}
				case *ast.CallExpr:
					sel, ok := x.Fun.(*ast.SelectorExpr)
					if !ok {
						return true
					}
					if id, ok := sel.X.(*ast.Ident); ok {
						if pn, ok := p.TypesInfo.Uses[id].(*types.PkgName); ok && pn.Imported().Path() == "sync/atomic" {
							unmodelled = append(unmodelled, rawSite(x.Pos())+" atomic."+sel.Sel.Name)
							syncYield(x)
							return true
						}
					}
					rt := p.TypesInfo.TypeOf(sel.X)
					if rt == nil {
						return true
					}
					ts := rt.String()
					switch {
					case ts == "reflect.Value" && sel.Sel.Name == "MapKeys":
						s := site("mapkeys", x.Pos())
						add(x.Pos(), 0, "simrt.MapKeys("+q(s)+", ")
						add(x.End(), 0, ")")
						counts["mapkeys"]++
						sites = append(sites, siteInfo{s, "mapkeys", "", p.PkgPath, enclosingFunc(x)})
					case ts == "reflect.Value" && sel.Sel.Name == "MapRange":
						s := site("maprange", x.Pos())
						add(x.Pos(), 0, "simrt.MapRange("+q(s)+", ")
						add(sel.X.End(), int(x.End()-sel.X.End()), ")")
						counts["maprange"]++
						sites = append(sites, siteInfo{s, "maprange", "", p.PkgPath, enclosingFunc(x)})
					case (strings.HasSuffix(ts, "sync.RWMutex") || strings.HasSuffix(ts, "sync.Mutex")) &&
						(sel.Sel.Name == "Lock" || sel.Sel.Name == "RLock" || sel.Sel.Name == "Unlock" || sel.Sel.Name == "RUnlock"):
						amp := "&"
						if _, isPtr := rt.(*types.Pointer); isPtr {
							amp = ""
						}
						s := site("lock", x.Pos())
						add(x.Pos(), 0, "simrt."+sel.Sel.Name+"("+q(s)+", "+amp)
						add(sel.X.End(), int(x.End()-sel.X.End()), ")")
						counts["lock"]++
						sites = append(sites, siteInfo{s, "lock", ts + "." + sel.Sel.Name, p.PkgPath, enclosingFunc(x)})
					case (ts == "sync.Pool" || ts == "*sync.Pool") && (sel.Sel.Name == "Get" || sel.Sel.Name == "Put"):
						// a pool's choice of which object to hand back (per-P caches, emptied by the
						// collector) goes behind the seam: simrt keeps one LIFO per pool, shared by all tasks
						amp := "&"
						if _, isPtr := rt.(*types.Pointer); isPtr {
							amp = ""
						}
						s := site("pool", x.Pos())
						if sel.Sel.Name == "Get" {
							add(x.Pos(), 0, "simrt.PoolGet("+q(s)+", "+amp)
							add(sel.X.End(), int(x.End()-sel.X.End()), ")")
						} else {
							add(x.Pos(), 0, "simrt.PoolPut("+q(s)+", "+amp)
							add(sel.X.End(), int(x.Lparen+1-sel.X.End()), ", ")
						}
						counts["pool"]++
						sites = append(sites, siteInfo{s, "pool", ts + "." + sel.Sel.Name, p.PkgPath, enclosingFunc(x)})
						syncYield(x)
					default:
						// synchronisation the lock shims do not model
						if strings.Contains(ts, "sync.Once") || strings.Contains(ts, "sync.Map") || strings.Contains(ts, "sync.WaitGroup") ||
							strings.Contains(ts, "sync.Cond") || strings.Contains(ts, "sync.Pool") || strings.Contains(ts, "sync/atomic.") || strings.Contains(ts, "atomic.") {
							unmodelled = append(unmodelled, rawSite(x.Pos())+" "+ts+"."+sel.Sel.Name)
							syncYield(x)
						}
						if id, ok := sel.X.(*ast.Ident); ok {
							if pn, ok := p.TypesInfo.Uses[id].(*types.PkgName); ok && pn.Imported().Path() == "sync/atomic" {
								unmodelled = append(unmodelled, rawSite(x.Pos())+" atomic."+sel.Sel.Name)
							}
						}
					}
				case *ast.GoStmt:
					unmodelled = append(unmodelled, rawSite(x.Pos())+" go statement")
				case *ast.SendStmt:
					unmodelled = append(unmodelled, rawSite(x.Pos())+" channel send")
				case *ast.SelectStmt:
					unmodelled = append(unmodelled, rawSite(x.Pos())+" select")
				case *ast.UnaryExpr:
					if x.Op == token.ARROW {
						unmodelled = append(unmodelled, rawSite(x.Pos())+" channel receive")
					}
				case *ast.FuncDecl:
					if x.Body == nil {
						return true
					}
					if *mainHook && p.Name == "main" && x.Name.Name == "main" && x.Recv == nil {
						add(x.Body.Lbrace+1, 0, "defer simrt.AtExit();")
						counts["mainhook"]++
					}
					if *doYield {
						add(x.Body.Lbrace+1, 0, "simrt.Yield("+q(site("entry", x.Pos()))+");")
						counts["yield-entry"]++
					}
				case *ast.AssignStmt:
					if !*doYield || !inStmtList(x) {
						return true
					}
					for _, l := range x.Lhs {
						switch l.(type) {
						case *ast.SelectorExpr, *ast.IndexExpr, *ast.StarExpr:
							add(x.Pos(), 0, "simrt.Yield("+q(site("store", x.Pos()))+");")
							counts["yield-store"]++
							return true
						}
					}
				}
				return true
			})
			// simulated process restart: re-run the initialisers of this file's package-level
			// variables (and zero those declared without one)
			wantReset := false
			for _, suf := range strings.Split(*resetPkgs, ",") {
				if suf != "" && (p.PkgPath == suf || strings.HasSuffix(p.PkgPath, "/"+suf)) {
					wantReset = true
				}
			}
			if wantReset {
				var body []string
				for _, d := range f.Decls {
					gd, ok := d.(*ast.GenDecl)
					if !ok || gd.Tok != token.VAR {
						continue
					}
					for _, sp := range gd.Specs {
						vs := sp.(*ast.ValueSpec)
						if len(vs.Names) != 1 || vs.Names[0].Name == "_" {
							continue
						}
						name := vs.Names[0].Name
						text := func(n ast.Node) string {
							return string(src[p.Fset.Position(n.Pos()).Offset:p.Fset.Position(n.End()).Offset])
						}
						switch {
						case len(vs.Values) == 1:
							if _, isFn := vs.Values[0].(*ast.FuncLit); isFn {
								continue
							}
							body = append(body, name+" = "+text(vs.Values[0]))
						case len(vs.Values) == 0 && vs.Type != nil:
							body = append(body, name+" = *new("+text(vs.Type)+")")
						}
					}
				}
				if len(body) > 0 {
					fnName := fmt.Sprintf("verifReset%d", len(resetFuncs))
					resetFuncs = append(resetFuncs, rawSite(f.Pos()))
					add(f.End(), 0, "\nfunc "+fnName+"() {\n\t"+strings.Join(body, "\n\t")+"\n}\nfunc init() { simrt.RegisterReset("+fnName+") }\n")
					counts["reset-globals"] += len(body)
				}
			}
			if len(edits) == 0 {
				continue
			}
			add(f.Name.End(), 0, ";import simrt \""+simImport+"\"")
			sort.Slice(edits, func(i, j int) bool {
				if edits[i].off != edits[j].off {
					return edits[i].off > edits[j].off
				}
				return edits[i].seq > edits[j].seq
			})
			out := src
			for _, e := range edits {
				out = append(out[:e.off:e.off], append([]byte(e.text), out[e.off+e.del:]...)...)
			}
			if err := os.WriteFile(fn, out, 0644); err != nil {
				fatal(err)
			}
			counts["files"]++
		}
	}
	if bad {
		os.Exit(2)
	}
	if *sitesOut != "" {
		sort.Strings(unmodelled)
		b, _ := json.MarshalIndent(map[string]any{"counts": counts, "sites": sites, "unmodelled_sync": unmodelled}, "", " ")
		if err := os.WriteFile(*sitesOut, b, 0644); err != nil {
			fatal(err)
		}
	}
	b, _ := json.Marshal(counts)
	fmt.Println("instr:", string(b))
}

func fatal(err error) {
	fmt.Fprintln(os.Stderr, "instr:", err)
	os.Exit(2)
}
