#!/bin/bash
# usage: tools/mutest.sh <patch.diff> <PROP> [tier]   — applies a mutant to /repo, runs the check, reverts.
set -u
P=$(readlink -f "$1"); PROP=$2; TIER=${3:-quick}
cd /repo || exit 2
if ! git diff --quiet; then echo "repo dirty"; exit 2; fi
git apply "$P" || { echo "patch does not apply"; exit 2; }
cd /verif
VERIF_EVIDENCE_DIR=/var/tmp/verif-mutant-evidence ./verifctl check "$PROP" --tier "$TIER" > /tmp/mutest.$$.out 2>&1
rc=$?
git -C /repo checkout -- . 
grep -E "^VIOLATION|^KNOWN-FINDING|INTERNAL|oracle=" /tmp/mutest.$$.out | head -8
tail -1 /tmp/mutest.$$.out
rm -f /tmp/mutest.$$.out
echo "mutest: $(basename $P) $PROP rc=$rc"
exit $rc
