#!/bin/bash
# usage: tools/mutest.sh <patch.diff> <PROP> [tier]
# Applies a mutant to a scratch COPY of /repo's working tree and runs the check against that copy
# (VERIF_REPO), with evidence, replays and build cache redirected. /repo itself is never written:
# an interrupted run cannot leave a mutant behind in it (that happened once, see DESIGN.md §8).
set -u
P=$(readlink -f "$1"); PROP=$2; TIER=${3:-quick}
SRC=${VERIF_REPO:-/repo}
W=/var/tmp/verif-mutest.$$
trap 'rm -rf "$W"' EXIT
mkdir -p "$W/repo" "$W/scratch" || exit 2
rsync -a --exclude .git "$SRC"/ "$W/repo"/ || exit 2
( cd "$W/repo" && git init -q . 2>/dev/null; git -C "$W/repo" apply "$P" ) || { echo "patch does not apply"; exit 2; }
cd /verif
VERIF_REPO="$W/repo" VERIF_SCRATCH="$W/scratch" VERIF_EVIDENCE_DIR="$W/evidence" VERIF_REPLAY_DIR="$W/replays" \
  ./verifctl check "$PROP" --tier "$TIER" > "$W/out" 2>&1
rc=$?
cp "$W/out" "/var/tmp/mutest-last-$PROP.out" 2>/dev/null; grep -E -A3 "^VIOLATION|^KNOWN-FINDING|INTERNAL|oracle=" "$W/out" | cut -c1-600 | head -24
tail -1 "$W/out"
echo "mutest: $(basename $P) $PROP rc=$rc"
exit $rc
