package ytypes

// VerifEvictRegexpCache is injected into the scratch copy by the verification harness
// (it is never part of /repo). It empties the global regexp cache under the cache's own
// write locks, so that the cache-miss / insert path runs under contention instead of once
// per process. It only deletes entries: the maps themselves stay in place, which is what
// the cache's locking discipline protects. The maps are emptied with clear(), not with a
// range loop: a loop would go through the map-order seam and draw as many permutation values
// from the calling task's stream as the cache happens to hold entries, and the cache's
// content differs between a task's solo reference run and its interleaved run (a harness
// artefact met once: an error text assembled in map order then differed between the two).
func VerifEvictRegexpCache() {
	reCache.posixMu.Lock()
	clear(reCache.posix)
	reCache.posixMu.Unlock()
	reCache.re2Mu.Lock()
	clear(reCache.re2)
	reCache.re2Mu.Unlock()
}
