package ytypes

// VerifEvictRegexpCache is injected into the scratch copy by the verification harness
// (it is never part of /repo). It empties the global regexp cache under the cache's own
// write locks, so that the cache-miss / insert path runs under contention instead of once
// per process. It only deletes entries: the maps themselves stay in place, which is what
// the cache's locking discipline protects.
func VerifEvictRegexpCache() {
	reCache.posixMu.Lock()
	for k := range reCache.posix {
		delete(reCache.posix, k)
	}
	reCache.posixMu.Unlock()
	reCache.re2Mu.Lock()
	for k := range reCache.re2 {
		delete(reCache.re2, k)
	}
	reCache.re2Mu.Unlock()
}
