// Package gen is the seeded, schema-driven workload generator: random data trees over the
// generated Go types, random edits of such trees, random values per leaf. Everything is
// drawn from one simrt.Rng, so a (seed, parameters) pair always yields the same tree.
// It builds trees by reflection and by writing ordered-map internals directly; it does
// not go through the generated helper methods (they are subjects of C15/C34).
package gen

import (
	"fmt"
	"reflect"
	"regexp"
	"sort"
	"strings"

	"github.com/openconfig/goyang/pkg/yang"
	"github.com/openconfig/ygot/verifharness/model"
	"verifsim/simrt"
)

// Params shape the generated trees (swarm-randomised per run by the callers).
type Params struct {
	// AllowInvalid lets patterned string leaves occasionally hold a value their patterns reject
	AllowInvalid bool `json:",omitempty"`
	PLeaf      float64 // probability that a leaf is set
	PContainer float64 // probability that a container is instantiated
	PList      float64 // probability that a list gets entries
	MaxList    int     // maximum entries per list
	MaxDepth   int
	Unkeyed    bool // populate unkeyed lists
	StateToo   bool // populate config false leaves as well
	// NoNestedOrdered leaves ordered lists inside ordered-list entries empty: ygot
	// documents nested `ordered-by user` lists as unsupported by its gNMI renderer.
	NoNestedOrdered bool
	// NoOrdered leaves every ordered list empty (ygot expects ordered lists to be
	// unmarshalled as a whole, so merge payloads must not carry entries that may exist).
	NoOrdered bool
	// NoPointerKeyed leaves lists keyed by wrapper unions (pointer keys) empty: merging a
	// JSON list into such a map cannot find existing entries by key value.
	NoPointerKeyed bool
}

// DefaultParams is a mid-size tree.
func DefaultParams() Params {
	return Params{PLeaf: 0.5, PContainer: 0.7, PList: 0.7, MaxList: 3, MaxDepth: 6, Unkeyed: false, StateToo: true}
}

// SwarmParams draws tree-shape parameters from the run's seed.
func SwarmParams(r *simrt.Rng) Params {
	p := Params{MaxDepth: 6, StateToo: r.Intn(4) != 0}
	p.PLeaf = []float64{0.15, 0.3, 0.5, 0.8, 1.0}[r.Intn(5)]
	p.PContainer = []float64{0.3, 0.6, 0.9, 1.0}[r.Intn(4)]
	p.PList = []float64{0.3, 0.6, 0.9}[r.Intn(3)]
	p.MaxList = 1 + r.Intn(4)
	return p
}

// G is a generator bound to one PRNG.
type G struct {
	// ZeroUnionKeys allows list keys that are a union holding the zero value of its member
	// type (only the ordered-map check on its own package asks for them)
	ZeroUnionKeys bool
	// WideInts also draws the far ends of the 8/16/32-bit integer types (set by C10 only, so the
	// other checks' streams stay as they are); added for seeded change S131
	WideInts bool
	R *simrt.Rng
	P Params
	inOrdered int
	forKey    bool // the value being generated is a list key
	// small value pools so that histories revisit the same keys and values
	Strs []string
}

func New(r *simrt.Rng, p Params) *G {
	// mostly plain strings (so that pattern-restricted leaves find a match and histories
	// revisit values), plus a few that are valid but unusual as list keys and leaf values:
	// a colon (module-prefix look-alike), a slash, '=', a space, a dot, a leading digit
	return &G{R: r, P: p, Strs: []string{"a", "b", "c", "ab", "xyz", "q", "foo", "k", "a", "b", "c", "ab",
		"65000:100", "eth0:1", "ge-0/0/1", "k=v", "x y", "1.2.3.4", "9lives", "ab:cd:ef", "7", "123", "007", "true", "AB12", "X9", "a<b>&c", "x", "y a", "*"}}
}

func (g *G) chance(p float64) bool {
	if p >= 1 {
		return true
	}
	if p <= 0 {
		return false
	}
	return float64(g.R.Next()%1000000)/1000000.0 < p
}

// ---------------------------------------------------------------------------
// schema type helpers

// ResolveLeafref follows a leafref leaf to the entry it points at (best effort).
func ResolveLeafref(e *yang.Entry) *yang.Entry {
	for hop := 0; e != nil && e.Type != nil && e.Type.Kind == yang.Yleafref && hop < 8; hop++ {
		path := e.Type.Path
		var cur *yang.Entry
		els := strings.Split(path, "/")
		if strings.HasPrefix(path, "/") {
			cur = e
			for cur.Parent != nil {
				cur = cur.Parent
			}
			els = els[1:]
		} else {
			cur = e
		}
		first := true
		for _, el := range els {
			if el == "" {
				continue
			}
			if i := strings.Index(el, ":"); i >= 0 {
				el = el[i+1:]
			}
			if i := strings.Index(el, "["); i >= 0 {
				el = el[:i]
			}
			if el == ".." {
				if cur != nil {
					cur = cur.Parent
					// choice/case are not data nodes
					for cur != nil && (cur.Kind == yang.ChoiceEntry || cur.Kind == yang.CaseEntry) {
						cur = cur.Parent
					}
				}
				continue
			}
			if cur == nil {
				break
			}
			nxt := model.Child(cur, el)
			if nxt == nil && first && strings.HasPrefix(path, "/") {
				// absolute path starting with the module's top container under a fake root
				// that may be named after the module: search one level down
				for _, c := range sortedDir(cur) {
					if n := model.Child(cur.Dir[c], el); n != nil {
						nxt = n
						break
					}
				}
			}
			first = false
			cur = nxt
		}
		if cur == nil || cur == e {
			return nil
		}
		e = cur
	}
	return e
}

func sortedDir(e *yang.Entry) []string {
	var ns []string
	for n := range e.Dir {
		ns = append(ns, n)
	}
	sort.Strings(ns)
	return ns
}

func effType(e *yang.Entry) *yang.YangType {
	if e == nil {
		return nil
	}
	if e.Type != nil && e.Type.Kind == yang.Yleafref {
		if t := ResolveLeafref(e); t != nil {
			return t.Type
		}
		return nil
	}
	return e.Type
}

var reCache = map[string]*regexp.Regexp{}

func matchesPatterns(t *yang.YangType, s string) bool {
	if t == nil {
		return true
	}
	pats := append([]string{}, t.Pattern...)
	pats = append(pats, t.POSIXPattern...)
	for _, p := range pats {
		re, ok := reCache[p]
		if !ok {
			var err error
			re, err = regexp.Compile("^(" + p + ")$")
			if err != nil {
				re = nil
			}
			reCache[p] = re
		}
		if re != nil && !re.MatchString(s) {
			return false
		}
	}
	if len(t.Length) > 0 {
		n := uint64(len([]rune(s)))
		ok := false
		for _, r := range t.Length {
			if r.Min.Value <= n && n <= r.Max.Value && !r.Min.Negative {
				ok = true
			}
		}
		if !ok {
			return false
		}
	}
	return true
}

func (g *G) str(t *yang.YangType) (string, bool) {
	if g.P.AllowInvalid && !g.forKey && t != nil && len(t.Pattern) > 0 && g.R.Intn(6) == 0 {
		// a value that may violate the leaf's patterns (only where the caller asked for it:
		// what Validate says about such a tree is part of the observation)
		return g.Strs[g.R.Intn(len(g.Strs))], true
	}
	if !g.forKey && g.R.Intn(24) == 0 && matchesPatterns(t, "") {
		return "", true // the empty string is a value
	}
	for try := 0; try < 12; try++ {
		s := g.Strs[g.R.Intn(len(g.Strs))]
		if matchesPatterns(t, s) {
			return s, true
		}
	}
	return "", false
}

func inRange(t *yang.YangType, neg bool, abs uint64) bool {
	if t == nil || len(t.Range) == 0 {
		return true
	}
	n := yang.Number{Value: abs, Negative: neg}
	for _, r := range t.Range {
		if !n.Less(r.Min) && !r.Max.Less(n) {
			return true
		}
	}
	return false
}

var intPool = []int64{0, 1, 2, 3, 5, 7, 42, 64, 100, 127, 1500, 9216, 65535, 1 << 20, -1, -2, -100, -128}

func (g *G) intVal(t *yang.YangType, bits int, signed bool) (int64, uint64, bool) {
	if bits == 64 && g.R.Intn(6) == 0 {
		// the far ends of the 64-bit types (uint64 values do not fit an int64)
		if signed {
			c := []int64{1<<63 - 1, -1 << 63, 1<<63 - 2}[g.R.Intn(3)]
			neg := c < 0
			abs := uint64(c)
			if neg {
				abs = uint64(-(c + 1)) + 1
			}
			if inRange(t, neg, abs) {
				return c, uint64(c), true
			}
		} else {
			u := []uint64{1 << 63, 1<<64 - 1, 1<<63 + 12345}[g.R.Intn(3)]
			if inRange(t, false, u) {
				return int64(u), u, true
			}
		}
	}
	if g.WideInts && bits < 64 && g.R.Intn(5) == 0 {
		if signed {
			c := []int64{1<<(bits-1) - 1, -1 << (bits - 1), 1<<(bits-1) - 2}[g.R.Intn(3)]
			neg, abs := c < 0, uint64(c)
			if neg {
				abs = uint64(-c)
			}
			if inRange(t, neg, abs) {
				return c, uint64(c), true
			}
		} else {
			u := []uint64{1 << (bits - 1), 1<<bits - 1, 1<<(bits-1) + 77}[g.R.Intn(3)]
			if inRange(t, false, u) {
				return int64(u), u, true
			}
		}
	}
	for try := 0; try < 40; try++ {
		c := intPool[g.R.Intn(len(intPool))]
		if !signed && c < 0 {
			continue
		}
		if signed && bits < 64 {
			lim := int64(1) << (bits - 1)
			if c >= lim || c < -lim {
				continue
			}
		} else if bits < 64 && uint64(c) >= uint64(1)<<bits {
			continue
		}
		neg := c < 0
		abs := uint64(c)
		if neg {
			abs = uint64(-c)
		}
		if t != nil && (t.Kind == yang.Yint8 || t.Kind == yang.Yint16 || t.Kind == yang.Yint32 || t.Kind == yang.Yint64 ||
			t.Kind == yang.Yuint8 || t.Kind == yang.Yuint16 || t.Kind == yang.Yuint32 || t.Kind == yang.Yuint64) {
			if !inRange(t, neg, abs) {
				continue
			}
		}
		return c, uint64(c), true
	}
	return 0, 0, false
}

// EnumValues lists the defined non-zero values of a generated enum type.
func EnumValues(t reflect.Type) []int64 {
	z := reflect.New(t).Elem()
	m := z.MethodByName("ΛMap")
	if !m.IsValid() {
		return nil
	}
	inner := m.Call(nil)[0].MapIndex(reflect.ValueOf(t.Name()))
	if !inner.IsValid() {
		return nil
	}
	var out []int64
	for _, k := range inner.MapKeys() {
		if k.Int() != 0 {
			out = append(out, k.Int())
		}
	}
	sort.Slice(out, func(i, j int) bool { return out[i] < out[j] })
	return out
}

func isEnumType(t reflect.Type) bool {
	if t.Kind() != reflect.Int64 {
		return false
	}
	_, ok := t.MethodByName("IsYANGGoEnum")
	return ok
}

// scalar produces a value of Go type t (non-pointer scalar / enum / Binary / YANGEmpty).
func (g *G) scalar(t reflect.Type, yt *yang.YangType) (reflect.Value, bool) {
	v := reflect.New(t).Elem()
	switch t.Kind() {
	case reflect.String:
		s, ok := g.str(yt)
		if !ok {
			return v, false
		}
		v.SetString(s)
	case reflect.Bool:
		if t.Name() == "YANGEmpty" {
			v.SetBool(true)
		} else {
			v.SetBool(g.R.Intn(2) == 0)
		}
	case reflect.Int64:
		if isEnumType(t) {
			vals := EnumValues(t)
			if len(vals) == 0 {
				return v, false
			}
			v.SetInt(vals[g.R.Intn(len(vals))])
			return v, true
		}
		fallthrough
	case reflect.Int8, reflect.Int16, reflect.Int32, reflect.Int:
		i, _, ok := g.intVal(yt, t.Bits(), true)
		if !ok {
			return v, false
		}
		v.SetInt(i)
	case reflect.Uint8, reflect.Uint16, reflect.Uint32, reflect.Uint64, reflect.Uint:
		_, u, ok := g.intVal(yt, t.Bits(), false)
		if !ok {
			return v, false
		}
		v.SetUint(u)
	case reflect.Float64, reflect.Float32:
		v.SetFloat([]float64{0.25, 1.5, -2.75, 10, 3.14, 0.01}[g.R.Intn(6)])
	case reflect.Slice:
		if t.Elem().Kind() == reflect.Uint8 {
			n := 1 + g.R.Intn(4)
			if t.Name() == "Binary" && g.R.Intn(8) == 0 {
				n = 0 // a zero-length binary value is a value (RFC 7950 9.8), distinct from an unset leaf
			}
			b := make([]byte, n)
			for i := range b {
				b[i] = byte(g.R.Intn(256))
			}
			v.SetBytes(b)
			return v, true
		}
		return v, false
	default:
		return v, false
	}
	return v, true
}

// UnrestrictedStringFirst reports whether t is a union whose first member is a string
// without pattern or length restriction.
func UnrestrictedStringFirst(t *yang.YangType) bool {
	m := unionMembers(t)
	if t == nil || t.Kind != yang.Yunion || len(m) == 0 {
		return false
	}
	return m[0].Kind == yang.Ystring && len(m[0].Pattern) == 0 && len(m[0].POSIXPattern) == 0 && len(m[0].Length) == 0
}

// EffType is the leaf's type with leafrefs resolved.
func EffType(e *yang.Entry) *yang.YangType { return effType(e) }

// unionMembers flattens the member types of a (possibly nested / leafref'd) union.
func unionMembers(yt *yang.YangType) []*yang.YangType {
	if yt == nil {
		return nil
	}
	if yt.Kind != yang.Yunion {
		return []*yang.YangType{yt}
	}
	var out []*yang.YangType
	for _, m := range yt.Type {
		out = append(out, unionMembers(m)...)
	}
	return out
}

// union produces a value for a union interface type via the parent's generated To_<Union>
// conversion, which is the only public constructor that works for both simple and wrapper
// unions.
func (g *G) union(parent reflect.Value, ut reflect.Type, e *yang.Entry) (reflect.Value, bool) {
	if parent.Kind() != reflect.Ptr {
		if !parent.CanAddr() {
			return reflect.Value{}, false
		}
		parent = parent.Addr()
	}
	conv := parent.MethodByName("To_" + ut.Name())
	if !conv.IsValid() {
		return reflect.Value{}, false
	}
	yt := effType(e)
	mem := unionMembers(yt)
	var enumTypes []reflect.Type
	if etm := parent.MethodByName("ΛEnumTypeMap"); etm.IsValid() && e != nil {
		m := etm.Call(nil)[0]
		// the table is keyed by schema path without the fake root's name
		cands := []string{e.Path()}
		if i := strings.Index(e.Path()[1:], "/"); i >= 0 {
			cands = append(cands, e.Path()[1+i:])
		}
		// ... and without the choice and case nodes on the way (they are not data nodes)
		var names []string
		for x := e; x != nil && x.Parent != nil; x = x.Parent {
			if x.IsChoice() || x.IsCase() {
				continue
			}
			names = append([]string{x.Name}, names...)
		}
		cands = append(cands, "/"+strings.Join(names, "/"))
		for _, c := range cands {
			if ts := m.MapIndex(reflect.ValueOf(c)); ts.IsValid() {
				for i := 0; i < ts.Len(); i++ {
					enumTypes = append(enumTypes, ts.Index(i).Interface().(reflect.Type))
				}
				break
			}
		}
	}
	for try := 0; try < 12; try++ {
		var raw reflect.Value
		var mt *yang.YangType
		if len(mem) > 0 {
			mt = mem[g.R.Intn(len(mem))]
			// A key is named by a string in a path. If the union's first member is an
			// unrestricted string, every key string denotes that member (YANG resolves a
			// union to the first member that accepts the value), so keys of such unions are
			// always generated as strings - digit-only ones included.
			if g.forKey && UnrestrictedStringFirst(yt) {
				mt = mem[0]
			}
		}
		kind := yang.Ystring
		if mt != nil {
			kind = mt.Kind
		} else {
			kind = []yang.TypeKind{yang.Ystring, yang.Yuint32, yang.Yint64, yang.Ybool, yang.Ybinary}[g.R.Intn(5)]
		}
		ok := true
		switch kind {
		case yang.Ystring:
			raw, ok = g.scalar(reflect.TypeOf(""), mt)
		case yang.Yuint8:
			raw, ok = g.scalar(reflect.TypeOf(uint8(0)), mt)
		case yang.Yuint16:
			raw, ok = g.scalar(reflect.TypeOf(uint16(0)), mt)
		case yang.Yuint32:
			raw, ok = g.scalar(reflect.TypeOf(uint32(0)), mt)
		case yang.Yuint64:
			raw, ok = g.scalar(reflect.TypeOf(uint64(0)), mt)
		case yang.Yint8:
			raw, ok = g.scalar(reflect.TypeOf(int8(0)), mt)
		case yang.Yint16:
			raw, ok = g.scalar(reflect.TypeOf(int16(0)), mt)
		case yang.Yint32:
			raw, ok = g.scalar(reflect.TypeOf(int32(0)), mt)
		case yang.Yint64:
			raw, ok = g.scalar(reflect.TypeOf(int64(0)), mt)
		case yang.Ybool:
			raw, ok = g.scalar(reflect.TypeOf(false), mt)
		case yang.Ybinary:
			raw, ok = g.scalar(reflect.TypeOf([]byte(nil)), mt)
		case yang.Ydecimal64:
			raw, ok = g.scalar(reflect.TypeOf(float64(0)), mt)
		case yang.Yenum, yang.Yidentityref:
			if len(enumTypes) == 0 {
				ok = false
				break
			}
			raw, ok = g.scalar(enumTypes[g.R.Intn(len(enumTypes))], nil)
		default:
			ok = false
		}
		if !ok {
			continue
		}
		out := conv.Call([]reflect.Value{raw})
		if !out[1].IsNil() && kind == yang.Ybinary {
			// the conversion functions of wrapper unions accept the package's own Binary type only
			if bt, ok := BinaryTypeOf[ut.PkgPath()]; ok {
				out = conv.Call([]reflect.Value{raw.Convert(bt)})
			}
		}
		if !out[1].IsNil() {
			continue
		}
		return out[0], true
	}
	return reflect.Value{}, false
}

// BinaryTypeOf maps the import path of a generated package to its `Binary` type (filled in by
// the harness from the corpus registry).
var BinaryTypeOf = map[string]reflect.Type{}

// resizeSlice drops the last element of a slice-typed leaf value or appends one fresh
// element (distinct from the present ones) to a copy of it.
func (g *G) resizeSlice(parent, f reflect.Value, ft reflect.Type, csch *yang.Entry) bool {
	if f.Len() >= 2 && g.chance(0.5) {
		n := reflect.MakeSlice(ft, f.Len()-1, f.Len()-1)
		reflect.Copy(n, f)
		f.Set(n)
		return true
	}
	v, ok := g.LeafValue(parent, ft, csch)
	if !ok || v.Kind() != reflect.Slice || v.Len() == 0 {
		return false
	}
	e := v.Index(0)
	for i := 0; i < f.Len(); i++ {
		if model.Render(f.Index(i)) == model.Render(e) {
			return false
		}
	}
	n := reflect.MakeSlice(ft, f.Len()+1, f.Len()+1)
	reflect.Copy(n, f)
	n.Index(f.Len()).Set(e)
	f.Set(n)
	return true
}

// LeafValue produces a value assignable to the leaf / leaf-list field (type ft) of parent.
func (g *G) LeafValue(parent reflect.Value, ft reflect.Type, e *yang.Entry) (reflect.Value, bool) {
	yt := effType(e)
	switch ft.Kind() {
	case reflect.Ptr:
		s, ok := g.scalar(ft.Elem(), yt)
		if !ok {
			return s, false
		}
		p := reflect.New(ft.Elem())
		p.Elem().Set(s)
		return p, true
	case reflect.Interface:
		return g.union(parent, ft, e)
	case reflect.Slice:
		if ft.Name() == "Binary" {
			return g.scalar(ft, yt)
		}
		n := 1 + g.R.Intn(3)
		out := reflect.MakeSlice(ft, 0, n)
		seen := map[string]bool{}
		// a state (config false) leaf-list may hold one value several times (RFC 7950 7.7);
		// drawing from a small pool twice more makes repeats likely there
		dupsOK := e != nil && isConfigFalse(e)
		if dupsOK {
			n += 2
		}
		for i := 0; i < n; i++ {
			var ev reflect.Value
			var ok bool
			if ft.Elem().Kind() == reflect.Interface {
				ev, ok = g.union(parent, ft.Elem(), e)
			} else {
				ev, ok = g.scalar(ft.Elem(), yt)
			}
			if !ok {
				continue
			}
			r := model.Render(ev)
			if seen[r] && !(dupsOK && g.R.Intn(2) == 0) {
				continue
			}
			seen[r] = true
			out = reflect.Append(out, ev)
		}
		if out.Len() == 0 {
			return out, false
		}
		return out, true
	default:
		return g.scalar(ft, yt)
	}
}

// ---------------------------------------------------------------------------
// trees

func isConfigFalse(e *yang.Entry) bool {
	for x := e; x != nil; x = x.Parent {
		if x.Config == yang.TSFalse {
			return true
		}
		if x.Config == yang.TSTrue {
			return false
		}
	}
	return false
}

// keyFieldSet returns the indices of the key leaf fields of a list entry struct type.
func keyFieldSet(t reflect.Type, listSch *yang.Entry) map[int]bool {
	out := map[int]bool{}
	if listSch == nil || !listSch.IsList() {
		return out
	}
	for _, n := range model.KeyNames(listSch) {
		if i, ok := model.KeyField(t, n); ok {
			out[i] = true
		}
	}
	return out
}

// Fill populates the (zero) struct s according to the parameters.
func (g *G) Fill(s reflect.Value, sch *yang.Entry, depth int) {
	t := s.Type()
	keys := keyFieldSet(t, sch)
	for i := 0; i < t.NumField(); i++ {
		if keys[i] {
			continue
		}
		g.fillField(s, i, sch, depth, false)
	}
}

func (g *G) fillField(s reflect.Value, i int, sch *yang.Entry, depth int, force bool) {
	t := s.Type()
	sf := t.Field(i)
	kind := model.Classify(sf)
	if kind == model.FSkip {
		return
	}
	rel := strings.Split(sf.Tag.Get("path"), "|")[0]
	csch := model.Child(sch, rel)
	f := s.Field(i)
	switch kind {
	case model.FLeaf, model.FLeafList:
		if !force && !g.chance(g.P.PLeaf) {
			return
		}
		if !g.P.StateToo && csch != nil && isConfigFalse(csch) {
			return
		}
		if v, ok := g.LeafValue(s, sf.Type, csch); ok {
			f.Set(v)
		}
	case model.FContainer:
		if depth >= g.P.MaxDepth || (!force && !g.chance(g.P.PContainer)) {
			return
		}
		n := reflect.New(sf.Type.Elem())
		g.Fill(n.Elem(), csch, depth+1)
		f.Set(n)
	case model.FList:
		if depth >= g.P.MaxDepth || (!force && !g.chance(g.P.PList)) {
			return
		}
		if g.P.NoPointerKeyed && pointerKeyed(sf.Type.Key()) {
			return
		}
		n := 1 + g.R.Intn(g.P.MaxList)
		m := reflect.MakeMap(sf.Type)
		for j := 0; j < n; j++ {
			g.AddMapEntry(m, csch, depth)
		}
		f.Set(m)
	case model.FOrderedList:
		if depth >= g.P.MaxDepth || (!force && !g.chance(g.P.PList)) {
			return
		}
		if g.P.NoOrdered || (g.P.NoNestedOrdered && g.inOrdered > 0) {
			return
		}
		om := reflect.New(sf.Type.Elem())
		st := model.OrderedInternals(om)
		if !st.OK {
			return
		}
		st.ValueMap.Set(reflect.MakeMap(st.ValueMap.Type()))
		n := 1 + g.R.Intn(g.P.MaxList)
		for j := 0; j < n; j++ {
			g.AddOrderedEntry(om, csch, depth)
		}
		f.Set(om)
	case model.FUnkeyedList:
		if !g.P.Unkeyed || depth >= g.P.MaxDepth || (!force && !g.chance(g.P.PList)) {
			return
		}
		n := 1 + g.R.Intn(g.P.MaxList)
		sl := reflect.MakeSlice(sf.Type, 0, n)
		for j := 0; j < n; j++ {
			e := reflect.New(sf.Type.Elem().Elem())
			g.Fill(e.Elem(), csch, depth+1)
			sl = reflect.Append(sl, e)
		}
		f.Set(sl)
	}
}

// NewEntry builds a list entry of type et (struct) with its key leaves set and returns
// it together with the Go map key derived from those key leaves.
func (g *G) NewEntry(et reflect.Type, keyType reflect.Type, listSch *yang.Entry, depth int) (entry reflect.Value, key reflect.Value, ok bool) {
	e := reflect.New(et)
	names := model.KeyNames(listSch)
	if len(names) == 0 {
		return e, reflect.Value{}, false
	}
	for _, n := range names {
		i, found := model.KeyField(et, n)
		if !found {
			return e, reflect.Value{}, false
		}
		sf := et.Field(i)
		rel := strings.Split(sf.Tag.Get("path"), "|")[0]
		g.forKey = true
		v, vok := g.LeafValue(e, sf.Type, model.Child(listSch, rel))
		g.forKey = false
		if !vok {
			return e, reflect.Value{}, false
		}
		if v.Kind() == reflect.Interface && !v.IsNil() {
			// no zero-valued union members as list keys: ygot treats a union holding the zero
			// value of its member type as unset (reported as a finding through non-key
			// leaves); as a key that would only repeat the same finding in every list property
			switch ev := v.Elem(); ev.Kind() {
			case reflect.Bool, reflect.String, reflect.Int8, reflect.Int16, reflect.Int32, reflect.Int64, reflect.Uint8, reflect.Uint16, reflect.Uint32, reflect.Uint64, reflect.Float64:
				if ev.IsZero() && !g.ZeroUnionKeys {
					return e, reflect.Value{}, false
				}
			}
		}
		e.Elem().Field(i).Set(v)
	}
	k, kok := KeyFromEntry(e.Elem(), keyType, names)
	if !kok {
		return e, reflect.Value{}, false
	}
	g.Fill(e.Elem(), listSch, depth+1)
	MirrorKeys(e.Elem(), names)
	return e, k, true
}

// KeyFromEntry derives the Go map key (scalar or key struct) from an entry's key leaves.
func KeyFromEntry(entry reflect.Value, keyType reflect.Type, names []string) (reflect.Value, bool) {
	get := func(n string) (reflect.Value, bool) {
		i, found := model.KeyField(entry.Type(), n)
		if !found {
			return reflect.Value{}, false
		}
		f := entry.Field(i)
		if !model.IsSet(f) {
			return reflect.Value{}, false
		}
		if f.Kind() == reflect.Ptr {
			return f.Elem(), true
		}
		return f, true
	}
	if keyType.Kind() == reflect.Struct && len(names) > 1 {
		k := reflect.New(keyType).Elem()
		for j := 0; j < keyType.NumField(); j++ {
			n := keyType.Field(j).Tag.Get("path")
			v, ok := get(n)
			if !ok {
				return k, false
			}
			if !v.Type().AssignableTo(keyType.Field(j).Type) {
				if v.Type().ConvertibleTo(keyType.Field(j).Type) {
					v = v.Convert(keyType.Field(j).Type)
				} else {
					return k, false
				}
			}
			k.Field(j).Set(v)
		}
		return k, true
	}
	v, ok := get(names[0])
	if !ok {
		return reflect.Value{}, false
	}
	if keyType.Kind() == reflect.Interface {
		k := reflect.New(keyType).Elem()
		for v.Kind() == reflect.Interface {
			v = v.Elem()
		}
		k.Set(v)
		return k, true
	}
	if !v.Type().AssignableTo(keyType) {
		return v, false
	}
	return v, true
}

// AddMapEntry adds one fresh entry to the (non-nil) list map m; false if the drawn key
// already exists.
func (g *G) AddMapEntry(m reflect.Value, listSch *yang.Entry, depth int) bool {
	mt := m.Type()
	e, k, ok := g.NewEntry(mt.Elem().Elem(), mt.Key(), listSch, depth)
	if !ok {
		return false
	}
	if m.MapIndex(k).IsValid() {
		return false
	}
	// wrapper-union keys are pointers: equal key values with different identities would
	// otherwise coexist, which no YANG list allows
	ks := model.Render(k)
	for _, ek := range m.MapKeys() {
		if model.Render(ek) == ks {
			return false
		}
	}
	m.SetMapIndex(k, e)
	return true
}

// AddOrderedEntry appends one fresh entry to the ordered map om (pointer).
func (g *G) AddOrderedEntry(om reflect.Value, listSch *yang.Entry, depth int) bool {
	st := model.OrderedInternals(om)
	if !st.OK {
		return false
	}
	if st.ValueMap.IsNil() {
		st.ValueMap.Set(reflect.MakeMap(st.ValueMap.Type()))
	}
	mt := st.ValueMap.Type()
	g.inOrdered++
	e, k, ok := g.NewEntry(mt.Elem().Elem(), mt.Key(), listSch, depth)
	g.inOrdered--
	if !ok {
		return false
	}
	if st.ValueMap.MapIndex(k).IsValid() {
		return false
	}
	ks := model.Render(k)
	for _, ek := range st.ValueMap.MapKeys() {
		if model.Render(ek) == ks {
			return false
		}
	}
	st.ValueMap.SetMapIndex(k, e)
	st.Keys.Set(reflect.Append(st.Keys, k))
	return true
}

// Tree builds a fresh tree of the given root struct type.
func (g *G) Tree(rootType reflect.Type, sch *yang.Entry) interface{} {
	r := reflect.New(rootType)
	g.Fill(r.Elem(), sch, 0)
	return r.Interface()
}

// ---------------------------------------------------------------------------
// edits

// EditParams are the per-node probabilities of Mutate.
type EditParams struct {
	PDel, PChange, PAdd float64
	PReorder            float64
}

func DefaultEdit() EditParams { return EditParams{PDel: 0.1, PChange: 0.15, PAdd: 0.1, PReorder: 0.3} }

// Mutate edits the tree in place: unsets / changes / sets leaves, removes and adds
// containers and list entries, reorders and extends ordered lists. Key leaves are never
// edited separately from their list entry. It returns the number of edits made.
func (g *G) Mutate(s reflect.Value, sch *yang.Entry, depth int, ep EditParams) int {
	t := s.Type()
	keys := keyFieldSet(t, sch)
	edits := 0
	for i := 0; i < t.NumField(); i++ {
		if keys[i] {
			continue
		}
		sf := t.Field(i)
		kind := model.Classify(sf)
		if kind == model.FSkip {
			continue
		}
		rel := strings.Split(sf.Tag.Get("path"), "|")[0]
		csch := model.Child(sch, rel)
		f := s.Field(i)
		switch kind {
		case model.FLeaf, model.FLeafList:
			if model.IsSet(f) {
				switch {
				case g.chance(ep.PDel):
					f.Set(reflect.Zero(sf.Type))
					edits++
				case g.chance(ep.PChange):
					if f.Kind() == reflect.Slice && f.Len() >= 1 && g.chance(0.4) {
						// a leaf-list / binary value that shrinks or grows at its end (the
						// commonest edit of such a value, and the one after which the old and
						// the new value are prefixes of one another)
						if g.resizeSlice(s, f, sf.Type, csch) {
							edits++
						}
						continue
					}
					if v, ok := g.LeafValue(s, sf.Type, csch); ok {
						if model.Render(v) != model.Render(f) {
							edits++
						}
						f.Set(v)
					}
				}
			} else if g.chance(ep.PAdd) {
				g.fillField(s, i, sch, depth, true)
				if model.IsSet(f) {
					edits++
				}
			}
		case model.FContainer:
			if f.IsNil() {
				if g.chance(ep.PAdd) {
					g.fillField(s, i, sch, depth, true)
					edits++
				}
				continue
			}
			if g.chance(ep.PDel / 2) {
				f.Set(reflect.Zero(sf.Type))
				edits++
				continue
			}
			edits += g.Mutate(f.Elem(), csch, depth+1, ep)
		case model.FList:
			if f.IsNil() {
				if g.chance(ep.PAdd) {
					g.fillField(s, i, sch, depth, true)
					edits++
				}
				continue
			}
			ks := f.MapKeys()
			sort.Slice(ks, func(a, b int) bool { return model.Render(ks[a]) < model.Render(ks[b]) })
			for _, k := range ks {
				if g.chance(ep.PDel) {
					f.SetMapIndex(k, reflect.Value{})
					edits++
					continue
				}
				edits += g.Mutate(f.MapIndex(k).Elem(), csch, depth+1, ep)
			}
			if g.chance(ep.PAdd * 2) {
				if g.AddMapEntry(f, csch, depth) {
					edits++
				}
			}
			if f.Len() == 0 {
				f.Set(reflect.Zero(sf.Type))
			}
		case model.FOrderedList:
			if f.IsNil() {
				if g.chance(ep.PAdd) && !(g.P.NoNestedOrdered && g.inOrdered > 0) {
					g.fillField(s, i, sch, depth, true)
					edits++
				}
				continue
			}
			st := model.OrderedInternals(f)
			if !st.OK {
				continue
			}
			// delete / recurse
			n := st.Keys.Len()
			kept := reflect.MakeSlice(st.Keys.Type(), 0, n)
			for j := 0; j < n; j++ {
				k := st.Keys.Index(j)
				if g.chance(ep.PDel) {
					st.ValueMap.SetMapIndex(k, reflect.Value{})
					edits++
					continue
				}
				kept = reflect.Append(kept, k)
				g.inOrdered++
				edits += g.Mutate(st.ValueMap.MapIndex(k).Elem(), csch, depth+1, ep)
				g.inOrdered--
			}
			st.Keys.Set(kept)
			if g.chance(ep.PAdd * 2) {
				if g.AddOrderedEntry(f, csch, depth) {
					edits++
					// sometimes move the new entry to a random position
					if l := st.Keys.Len(); l > 1 && g.R.Intn(2) == 0 {
						pos := g.R.Intn(l)
						last := reflect.New(st.Keys.Type().Elem()).Elem()
						last.Set(st.Keys.Index(l - 1))
						for x := l - 1; x > pos; x-- {
							st.Keys.Index(x).Set(st.Keys.Index(x - 1))
						}
						st.Keys.Index(pos).Set(last)
					}
				}
			}
			if l := st.Keys.Len(); l > 1 && g.chance(ep.PReorder) {
				a, b := g.R.Intn(l), g.R.Intn(l)
				if a != b {
					tmp := reflect.New(st.Keys.Type().Elem()).Elem()
					tmp.Set(st.Keys.Index(a))
					st.Keys.Index(a).Set(st.Keys.Index(b))
					st.Keys.Index(b).Set(tmp)
					edits++
				}
			}
			if st.Keys.Len() == 0 {
				f.Set(reflect.Zero(sf.Type))
			}
		case model.FUnkeyedList:
			// unkeyed lists are regenerated wholesale
			if g.P.Unkeyed && g.chance(ep.PChange) {
				f.Set(reflect.Zero(sf.Type))
				g.fillField(s, i, sch, depth, true)
				edits++
			}
		}
	}
	return edits
}

// Describe is a short human-readable summary used in evidence samples.
func Describe(m *model.Model) string {
	return fmt.Sprintf("%d leaves, %d containers, %d lists", len(m.Leaves), len(m.Containers), len(m.ListKeys))
}

// MirrorKeys makes an uncompressed OpenConfig-style list entry self-consistent: the key
// leaves of such an entry are leafrefs to same-named leaves in its config container, so
// if that container exists its leaves are set to the key values.
func MirrorKeys(entry reflect.Value, names []string) {
	t := entry.Type()
	for i := 0; i < t.NumField(); i++ {
		sf := t.Field(i)
		if model.Classify(sf) != model.FContainer || sf.Tag.Get("path") != "config" {
			continue
		}
		c := entry.Field(i)
		if c.IsNil() {
			continue
		}
		ct := sf.Type.Elem()
		for _, n := range names {
			ki, ok := model.KeyField(t, n)
			if !ok {
				continue
			}
			for j := 0; j < ct.NumField(); j++ {
				if ct.Field(j).Tag.Get("path") == n && ct.Field(j).Type == t.Field(ki).Type {
					kv := entry.Field(ki)
					if kv.Kind() == reflect.Ptr && !kv.IsNil() {
						nv := reflect.New(kv.Type().Elem())
						nv.Elem().Set(kv.Elem())
						c.Elem().Field(j).Set(nv)
					} else {
						c.Elem().Field(j).Set(kv)
					}
				}
			}
		}
	}
}

// pointerKeyed reports whether a map key type is (or contains) a union interface, which
// for packages generated with wrapper unions holds a pointer.
func pointerKeyed(kt reflect.Type) bool {
	if kt.Kind() == reflect.Interface {
		return true
	}
	if kt.Kind() == reflect.Struct {
		for i := 0; i < kt.NumField(); i++ {
			if kt.Field(i).Type.Kind() == reflect.Interface {
				return true
			}
		}
	}
	return false
}
