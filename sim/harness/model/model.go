// Package model is the harness's own, independent view of a ygot data tree: a walker
// that turns a tree of generated Go structs into a path -> value map (the "leaf set"),
// written against struct tags and reflection only. It deliberately does not use ygot's
// own traversal helpers (findSetLeaves, TogNMINotifications, ForEachField ...), so that
// the system under test is never its own oracle.
package model

import (
	"encoding/hex"
	"fmt"
	"reflect"
	"sort"
	"strconv"
	"strings"
	"unsafe"

	"github.com/openconfig/goyang/pkg/yang"
)

// Leaf is one set leaf or leaf-list.
type Leaf struct {
	Path   string   // primary absolute path, keys sorted by name
	Alt    []string // further paths addressing the same field (e.g. compressed key leaves)
	Shadow []string // paths from the "shadow-path" tag (inert unless shadow paths are preferred)
	Val    string   // canonical, type-tagged value
	GoType string
	Key    bool          // list key leaf
	// ZeroUnion: the field is a union (interface) holding the zero value of a scalar member
	// type (UnionUint32(0), UnionBool(false), UnionString("")), a legal YANG value that
	// ygot's traversal treats like an unset leaf.
	ZeroUnion bool
	Field  reflect.Value // the (addressable) struct field
	Schema *yang.Entry
}

// Model is the leaf set plus the structural facts the properties talk about.
type Model struct {
	Leaves     map[string]*Leaf
	Containers map[string]reflect.Value // every non-nil container, list entry, keyed by path
	ListKeys   map[string][]string      // list path -> keys of its entries, in stored order for ordered lists, sorted otherwise
	Ordered    map[string]bool          // list path -> is an ordered map
	Unkeyed    map[string]int           // unkeyed list path -> number of entries
	EmptyMaps  []string                 // paths of non-nil but empty maps/ordered maps/slices
	Problems   []string                 // structural inconsistencies (key leaf != map key, nil entry, ...)
}

func newModel() *Model {
	return &Model{Leaves: map[string]*Leaf{}, Containers: map[string]reflect.Value{}, ListKeys: map[string][]string{}, Ordered: map[string]bool{}, Unkeyed: map[string]int{}}
}

// FlatNoZeroUnion is Flat without the zero-valued union leaves (ygot's own notion of
// which leaves are set).
func (m *Model) FlatNoZeroUnion() map[string]string {
	out := make(map[string]string, len(m.Leaves))
	for p, l := range m.Leaves {
		if !l.ZeroUnion {
			out[p] = l.Val
		}
	}
	return out
}

// Flat returns path -> value for every leaf under its primary path.
func (m *Model) Flat() map[string]string {
	out := make(map[string]string, len(m.Leaves))
	for p, l := range m.Leaves {
		out[p] = l.Val
	}
	return out
}

// Paths returns the sorted primary leaf paths.
func (m *Model) Paths() []string {
	ps := make([]string, 0, len(m.Leaves))
	for p := range m.Leaves {
		ps = append(ps, p)
	}
	sort.Strings(ps)
	return ps
}

// Fingerprint is a deterministic rendering of the whole model (leaves and list order).
func (m *Model) Fingerprint() string {
	var b strings.Builder
	for _, p := range m.Paths() {
		b.WriteString(p)
		b.WriteString("=")
		b.WriteString(m.Leaves[p].Val)
		b.WriteString("\n")
	}
	var ls []string
	for l := range m.ListKeys {
		ls = append(ls, l)
	}
	sort.Strings(ls)
	for _, l := range ls {
		if m.Ordered[l] {
			b.WriteString("order " + l + ": " + strings.Join(m.ListKeys[l], " | ") + "\n")
		}
	}
	var cs []string
	for c := range m.Containers {
		cs = append(cs, c)
	}
	sort.Strings(cs)
	b.WriteString("containers: " + strings.Join(cs, " ") + "\n")
	return b.String()
}

// DiffFlat lists the differences between two flat leaf sets (at most max lines).
func DiffFlat(a, b map[string]string, max int) []string {
	var out []string
	keys := map[string]bool{}
	for k := range a {
		keys[k] = true
	}
	for k := range b {
		keys[k] = true
	}
	ks := make([]string, 0, len(keys))
	for k := range keys {
		ks = append(ks, k)
	}
	sort.Strings(ks)
	for _, k := range ks {
		av, aok := a[k]
		bv, bok := b[k]
		switch {
		case aok && !bok:
			out = append(out, fmt.Sprintf("- %s = %s", k, av))
		case !aok && bok:
			out = append(out, fmt.Sprintf("+ %s = %s", k, bv))
		case av != bv:
			out = append(out, fmt.Sprintf("~ %s : %s -> %s", k, av, bv))
		}
		if max > 0 && len(out) >= max {
			break
		}
	}
	return out
}

// ---------------------------------------------------------------------------
// schema helpers

// Child finds the schema entry reached from e by the slash-separated relative path,
// looking through choice and case nodes.
func Child(e *yang.Entry, rel string) *yang.Entry {
	cur := e
	for _, el := range strings.Split(rel, "/") {
		if el == "" {
			continue
		}
		if cur == nil {
			return nil
		}
		cur = childOne(cur, el)
	}
	return cur
}

func childOne(e *yang.Entry, name string) *yang.Entry {
	if e == nil || e.Dir == nil {
		return nil
	}
	if c, ok := e.Dir[name]; ok {
		return c
	}
	// sorted for determinism (this package is not instrumented)
	names := make([]string, 0, len(e.Dir))
	for n := range e.Dir {
		names = append(names, n)
	}
	sort.Strings(names)
	for _, n := range names {
		c := e.Dir[n]
		if c.Kind == yang.ChoiceEntry || c.Kind == yang.CaseEntry {
			if r := childOne(c, name); r != nil {
				return r
			}
		}
	}
	return nil
}

// ---------------------------------------------------------------------------
// field classification

type FieldKind int

const (
	FSkip FieldKind = iota
	FContainer
	FList        // map
	FOrderedList // *X_OrderedMap
	FUnkeyedList // []*Struct
	FLeaf
	FLeafList
)

var goStructMethod = "IsYANGGoStruct"

func isGoStructPtr(t reflect.Type) bool {
	if t.Kind() != reflect.Ptr || t.Elem().Kind() != reflect.Struct {
		return false
	}
	_, ok := t.MethodByName(goStructMethod)
	return ok
}

func isOrderedMapPtr(t reflect.Type) bool {
	if t.Kind() != reflect.Ptr || t.Elem().Kind() != reflect.Struct {
		return false
	}
	_, ok := t.MethodByName("IsYANGOrderedList")
	return ok
}

func isEnum(t reflect.Type) bool {
	if t.Kind() != reflect.Int64 {
		return false
	}
	_, ok := t.MethodByName("IsYANGGoEnum")
	return ok
}

// Classify says what a struct field of a generated GoStruct holds.
func Classify(sf reflect.StructField) FieldKind {
	if sf.Tag.Get("ygotAnnotation") != "" || sf.Tag.Get("path") == "" || !sf.IsExported() {
		return FSkip
	}
	t := sf.Type
	switch t.Kind() {
	case reflect.Ptr:
		if isOrderedMapPtr(t) {
			return FOrderedList
		}
		if isGoStructPtr(t) {
			return FContainer
		}
		return FLeaf
	case reflect.Map:
		return FList
	case reflect.Slice:
		if t.Name() == "Binary" {
			return FLeaf
		}
		if isGoStructPtr(t.Elem()) {
			return FUnkeyedList
		}
		return FLeafList
	case reflect.Interface:
		return FLeaf
	default:
		return FLeaf
	}
}

// IsSet reports whether a leaf / leaf-list field holds a value.
func IsSet(v reflect.Value) bool {
	switch v.Kind() {
	case reflect.Interface:
		if v.IsNil() {
			return false
		}
		// an enumeration member of a union holding 0 is the generated UNSET constant
		if e := v.Elem(); isEnum(e.Type()) && e.Int() == 0 {
			return false
		}
		return true
	case reflect.Ptr, reflect.Map:
		return !v.IsNil()
	case reflect.Slice:
		if v.Type().Name() == "Binary" {
			return !v.IsNil() // a zero-length binary value is set
		}
		return !v.IsNil() && v.Len() > 0
	case reflect.Int64:
		return v.Int() != 0
	case reflect.Bool:
		return v.Bool()
	}
	return !v.IsZero()
}

// ---------------------------------------------------------------------------
// value rendering

func enumName(v reflect.Value) string {
	m := v.MethodByName("ΛMap")
	if !m.IsValid() {
		return strconv.FormatInt(v.Int(), 10)
	}
	out := m.Call(nil)[0]
	tn := v.Type().Name()
	inner := out.MapIndex(reflect.ValueOf(tn))
	if !inner.IsValid() {
		return fmt.Sprintf("?%s:%d", tn, v.Int())
	}
	def := inner.MapIndex(reflect.ValueOf(v.Int()))
	if !def.IsValid() {
		return fmt.Sprintf("?%s:%d", tn, v.Int())
	}
	return def.FieldByName("Name").String()
}

// enumJSONName is the RFC 7951 rendering of an enumeration or identityref value. An
// identity may be written with the name of its defining module in front ("module:NAME");
// that form is used for the identities whose name has an even number of characters, so that
// both spellings reach the decoders.
func enumJSONName(v reflect.Value) string {
	name := enumName(v)
	m := v.MethodByName("ΛMap")
	if !m.IsValid() {
		return name
	}
	inner := m.Call(nil)[0].MapIndex(reflect.ValueOf(v.Type().Name()))
	if !inner.IsValid() {
		return name
	}
	def := inner.MapIndex(reflect.ValueOf(v.Int()))
	if !def.IsValid() {
		return name
	}
	if mod := def.FieldByName("DefiningModule"); mod.IsValid() && mod.String() != "" && len(name)%2 == 0 {
		return mod.String() + ":" + name
	}
	return name
}

// Render gives the canonical, type-tagged rendering of a leaf value. Union members are
// rendered by their underlying YANG value class, so UnionUint32(5) and a wrapper struct
// holding uint32 5 render alike.
func Render(v reflect.Value) string {
	if !v.IsValid() {
		return "<invalid>"
	}
	switch v.Kind() {
	case reflect.Ptr:
		if v.IsNil() {
			return "<nil>"
		}
		if v.Elem().Kind() == reflect.Struct {
			// wrapper union: single-field struct
			e := v.Elem()
			if e.NumField() == 1 {
				return Render(e.Field(0))
			}
			return "<struct " + e.Type().Name() + ">"
		}
		return Render(v.Elem())
	case reflect.Interface:
		if v.IsNil() {
			return "<nil>"
		}
		return Render(v.Elem())
	case reflect.String:
		return "s:" + strconv.Quote(v.String())
	case reflect.Bool:
		if v.Type().Name() == "YANGEmpty" {
			return "y:" + strconv.FormatBool(v.Bool())
		}
		return "b:" + strconv.FormatBool(v.Bool())
	case reflect.Int64:
		if isEnum(v.Type()) {
			return "e:" + enumName(v)
		}
		return "i:" + strconv.FormatInt(v.Int(), 10)
	case reflect.Int, reflect.Int8, reflect.Int16, reflect.Int32:
		return "i:" + strconv.FormatInt(v.Int(), 10)
	case reflect.Uint, reflect.Uint8, reflect.Uint16, reflect.Uint32, reflect.Uint64:
		return "u:" + strconv.FormatUint(v.Uint(), 10)
	case reflect.Float32, reflect.Float64:
		return "f:" + strconv.FormatFloat(v.Float(), 'g', -1, 64)
	case reflect.Slice:
		if v.Type().Elem().Kind() == reflect.Uint8 && v.Type().Name() == "Binary" {
			return "x:" + hex.EncodeToString(v.Bytes())
		}
		parts := make([]string, v.Len())
		for i := 0; i < v.Len(); i++ {
			parts[i] = Render(v.Index(i))
		}
		return "[" + strings.Join(parts, " ") + "]"
	case reflect.Struct:
		parts := make([]string, v.NumField())
		for i := 0; i < v.NumField(); i++ {
			parts[i] = Render(v.Field(i))
		}
		return "{" + strings.Join(parts, " ") + "}"
	}
	return "<" + v.Kind().String() + ">"
}

// KeyString renders a key value the way it appears inside a gNMI path element.
func KeyString(v reflect.Value) string {
	for v.Kind() == reflect.Ptr || v.Kind() == reflect.Interface {
		if v.IsNil() {
			return "<nil>"
		}
		v = v.Elem()
	}
	switch v.Kind() {
	case reflect.String:
		return v.String()
	case reflect.Bool:
		return strconv.FormatBool(v.Bool())
	case reflect.Int64:
		if isEnum(v.Type()) {
			return enumName(v)
		}
		return strconv.FormatInt(v.Int(), 10)
	case reflect.Int, reflect.Int8, reflect.Int16, reflect.Int32:
		return strconv.FormatInt(v.Int(), 10)
	case reflect.Uint, reflect.Uint8, reflect.Uint16, reflect.Uint32, reflect.Uint64:
		return strconv.FormatUint(v.Uint(), 10)
	case reflect.Float32, reflect.Float64:
		return strconv.FormatFloat(v.Float(), 'g', -1, 64)
	case reflect.Struct:
		if v.NumField() == 1 {
			return KeyString(v.Field(0))
		}
	case reflect.Slice:
		if v.Type().Elem().Kind() == reflect.Uint8 {
			return hex.EncodeToString(v.Bytes())
		}
	}
	return fmt.Sprintf("<%s>", v.Kind())
}

// ---------------------------------------------------------------------------
// list keys

// KeyNames returns the key leaf names of a list schema entry.
func KeyNames(e *yang.Entry) []string {
	if e == nil {
		return nil
	}
	return strings.Fields(e.Key)
}

// KeyField finds, in a list entry struct type, the field holding key leaf `name`.
func KeyField(t reflect.Type, name string) (int, bool) {
	for i := 0; i < t.NumField(); i++ {
		sf := t.Field(i)
		if Classify(sf) != FLeaf {
			continue
		}
		for _, alt := range strings.Split(sf.Tag.Get("path"), "|") {
			if alt == name {
				return i, true
			}
		}
	}
	// uncompressed or plain schemas: the path is exactly the leaf name (handled above);
	// fall back to the last element of the first alternative
	for i := 0; i < t.NumField(); i++ {
		sf := t.Field(i)
		if Classify(sf) != FLeaf {
			continue
		}
		alts := strings.Split(sf.Tag.Get("path"), "|")
		els := strings.Split(alts[0], "/")
		if els[len(els)-1] == name && len(els) <= 2 {
			return i, true
		}
	}
	return 0, false
}

// FormatKeys renders [k=v] predicates sorted by key name.
func FormatKeys(kv map[string]string) string {
	ks := make([]string, 0, len(kv))
	for k := range kv {
		ks = append(ks, k)
	}
	sort.Strings(ks)
	var b strings.Builder
	for _, k := range ks {
		b.WriteString("[" + k + "=" + kv[k] + "]")
	}
	return b.String()
}

// MapKeyStrings turns a Go map key (scalar or key struct) into key-name -> string.
func MapKeyStrings(k reflect.Value, names []string) map[string]string {
	out := map[string]string{}
	kk := k
	for kk.Kind() == reflect.Interface {
		kk = kk.Elem()
	}
	if kk.Kind() == reflect.Struct && len(names) > 1 {
		t := kk.Type()
		for i := 0; i < t.NumField(); i++ {
			n := t.Field(i).Tag.Get("path")
			if n == "" {
				n = t.Field(i).Name
			}
			out[n] = KeyString(kk.Field(i))
		}
		return out
	}
	if len(names) >= 1 {
		out[names[0]] = KeyString(k)
	} else {
		out["?"] = KeyString(k)
	}
	return out
}

// EntryKeyStrings reads the key leaves of a list entry struct.
func EntryKeyStrings(entry reflect.Value, names []string) (map[string]string, bool) {
	out := map[string]string{}
	ok := true
	for _, n := range names {
		i, found := KeyField(entry.Type(), n)
		if !found {
			out[n] = "<nofield>"
			ok = false
			continue
		}
		f := entry.Field(i)
		if !IsSet(f) {
			out[n] = "<nil>"
			ok = false
			continue
		}
		out[n] = KeyString(f)
	}
	return out, ok
}

// ---------------------------------------------------------------------------
// ordered map internals

// OrderedMapState exposes the two private fields of a generated ordered map.
type OrderedMapState struct {
	Keys     reflect.Value // []K (addressable, settable)
	ValueMap reflect.Value // map[K]*V
	OK       bool
}

func expose(f reflect.Value) reflect.Value {
	return reflect.NewAt(f.Type(), unsafe.Pointer(f.UnsafeAddr())).Elem()
}

// OrderedInternals returns the private keys / valueMap fields of *X_OrderedMap.
func OrderedInternals(om reflect.Value) OrderedMapState {
	if om.Kind() != reflect.Ptr || om.IsNil() {
		return OrderedMapState{}
	}
	s := om.Elem()
	k := s.FieldByName("keys")
	m := s.FieldByName("valueMap")
	if !k.IsValid() || !m.IsValid() || k.Kind() != reflect.Slice || m.Kind() != reflect.Map {
		return OrderedMapState{}
	}
	return OrderedMapState{Keys: expose(k), ValueMap: expose(m), OK: true}
}

// ---------------------------------------------------------------------------
// walker

type walker struct {
	m *Model
}

// Walk computes the model of the tree rooted at root (a pointer to a generated struct)
// whose schema entry is sch. base is the absolute path of root ("" for the fake root).
func Walk(root interface{}, sch *yang.Entry, base string) *Model {
	w := &walker{m: newModel()}
	v := reflect.ValueOf(root)
	if v.Kind() != reflect.Ptr || v.IsNil() {
		return w.m
	}
	w.m.Containers[pathOrRoot(base)] = v
	w.structNode(v.Elem(), sch, base)
	return w.m
}

func pathOrRoot(p string) string {
	if p == "" {
		return "/"
	}
	return p
}

func (w *walker) problem(f string, a ...interface{}) {
	w.m.Problems = append(w.m.Problems, fmt.Sprintf(f, a...))
}

func joinPath(base, rel string) string {
	return base + "/" + rel
}

func (w *walker) structNode(s reflect.Value, sch *yang.Entry, base string) {
	t := s.Type()
	for i := 0; i < t.NumField(); i++ {
		sf := t.Field(i)
		kind := Classify(sf)
		if kind == FSkip {
			continue
		}
		alts := strings.Split(sf.Tag.Get("path"), "|")
		rel := alts[0]
		csch := Child(sch, rel)
		f := s.Field(i)
		p := joinPath(base, rel)
		switch kind {
		case FContainer:
			if f.IsNil() {
				continue
			}
			w.m.Containers[p] = f
			w.structNode(f.Elem(), csch, p)
		case FList:
			if f.IsNil() {
				continue
			}
			if f.Len() == 0 {
				w.m.EmptyMaps = append(w.m.EmptyMaps, p)
			}
			names := KeyNames(csch)
			var keys []string
			type ent struct {
				ks string
				v  reflect.Value
			}
			var ents []ent
			// keys are visited in an order fixed by their raw content: rendering a key calls
			// generated methods (ΛMap of an enumeration), which are yield points in the race
			// build, so the order of the visit is part of the schedule and must not be Go's
			// random map order
			mkeys := f.MapKeys()
			sort.SliceStable(mkeys, func(a, b int) bool { return rawCanon(mkeys[a]) < rawCanon(mkeys[b]) })
			for _, mk := range mkeys {
				kv := MapKeyStrings(mk, names)
				ks := FormatKeys(kv)
				ev := f.MapIndex(mk)
				if ev.IsNil() {
					w.problem("%s%s: nil list entry", p, ks)
					continue
				}
				if ek, ok := EntryKeyStrings(ev.Elem(), names); !ok || FormatKeys(ek) != ks {
					w.problem("%s%s: key leaves %s differ from map key", p, ks, FormatKeys(ek))
				}
				ents = append(ents, ent{ks, ev})
			}
			// Lists keyed by wrapper unions are keyed by pointer identity, so two entries can
			// carry the same key value. Keep the walk deterministic anyway: order such twins by
			// their content and tell them apart with a suffix.
			dup := false
			for a := range ents {
				for b := a + 1; b < len(ents); b++ {
					if ents[a].ks == ents[b].ks {
						dup = true
					}
				}
			}
			content := map[int]string{}
			if dup {
				for a := range ents {
					content[a] = Walk(ents[a].v.Interface(), csch, "").Fingerprint()
				}
				idx := make([]int, len(ents))
				for a := range idx {
					idx[a] = a
				}
				sort.SliceStable(idx, func(a, b int) bool {
					if ents[idx[a]].ks != ents[idx[b]].ks {
						return ents[idx[a]].ks < ents[idx[b]].ks
					}
					return content[idx[a]] < content[idx[b]]
				})
				sorted := make([]ent, len(ents))
				for a, i := range idx {
					sorted[a] = ents[i]
				}
				ents = sorted
				for a := 1; a < len(ents); a++ {
					if ents[a].ks == ents[a-1].ks || strings.HasPrefix(ents[a-1].ks, ents[a].ks+"~") {
						w.problem("%s%s: two entries with the same key value", p, ents[a].ks)
						ents[a].ks = fmt.Sprintf("%s~%d", ents[a].ks, a)
					}
				}
			} else {
				sort.Slice(ents, func(a, b int) bool { return ents[a].ks < ents[b].ks })
			}
			for _, e := range ents {
				keys = append(keys, e.ks)
				ep := p + e.ks
				w.m.Containers[ep] = e.v
				w.structNode(e.v.Elem(), csch, ep)
			}
			w.m.ListKeys[p] = keys
		case FOrderedList:
			if f.IsNil() {
				continue
			}
			w.m.Ordered[p] = true
			names := KeyNames(csch)
			st := OrderedInternals(f)
			if !st.OK {
				w.problem("%s: ordered map internals not found", p)
				continue
			}
			if st.Keys.Len() == 0 {
				w.m.EmptyMaps = append(w.m.EmptyMaps, p)
			}
			if st.Keys.Len() != st.ValueMap.Len() {
				w.problem("%s: ordered map has %d keys but %d values", p, st.Keys.Len(), st.ValueMap.Len())
			}
			var keys []string
			seen := map[string]bool{}
			for j := 0; j < st.Keys.Len(); j++ {
				k := st.Keys.Index(j)
				ks := FormatKeys(MapKeyStrings(k, names))
				if seen[ks] {
					w.problem("%s%s: duplicate key in ordered map", p, ks)
					continue
				}
				seen[ks] = true
				ev := st.ValueMap.MapIndex(k)
				if !ev.IsValid() || ev.IsNil() {
					w.problem("%s%s: key without value in ordered map", p, ks)
					continue
				}
				if ek, ok := EntryKeyStrings(ev.Elem(), names); !ok || FormatKeys(ek) != ks {
					w.problem("%s%s: key leaves %s differ from ordered-map key", p, ks, FormatKeys(ek))
				}
				keys = append(keys, ks)
				ep := p + ks
				w.m.Containers[ep] = ev
				w.structNode(ev.Elem(), csch, ep)
			}
			w.m.ListKeys[p] = keys
		case FUnkeyedList:
			if f.IsNil() {
				continue
			}
			if f.Len() == 0 {
				w.m.EmptyMaps = append(w.m.EmptyMaps, p)
			}
			w.m.Unkeyed[p] = f.Len()
			for j := 0; j < f.Len(); j++ {
				ev := f.Index(j)
				ep := fmt.Sprintf("%s#%d", p, j)
				if ev.IsNil() {
					w.problem("%s: nil unkeyed list entry", ep)
					continue
				}
				w.m.Containers[ep] = ev
				w.structNode(ev.Elem(), csch, ep)
			}
		case FLeaf, FLeafList:
			if !IsSet(f) {
				continue
			}
			l := &Leaf{Path: p, Val: Render(f), GoType: dynType(f), Field: f, Schema: csch}
			if f.Kind() == reflect.Interface {
				switch e := f.Elem(); e.Kind() {
				case reflect.Bool, reflect.String, reflect.Int8, reflect.Int16, reflect.Int32, reflect.Int64, reflect.Uint8, reflect.Uint16, reflect.Uint32, reflect.Uint64, reflect.Float64:
					l.ZeroUnion = e.IsZero()
				}
			}
			for _, a := range alts[1:] {
				l.Alt = append(l.Alt, joinPath(base, a))
			}
			if sp := sf.Tag.Get("shadow-path"); sp != "" {
				for _, a := range strings.Split(sp, "|") {
					l.Shadow = append(l.Shadow, joinPath(base, a))
				}
			}
			if sch != nil && sch.IsList() {
				els := strings.Split(rel, "/")
				for _, kn := range KeyNames(sch) {
					if els[len(els)-1] == kn && len(els) <= 2 {
						l.Key = true
					}
				}
			}
			w.m.Leaves[p] = l
		}
	}
}

func dynType(f reflect.Value) string {
	switch f.Kind() {
	case reflect.Interface:
		if f.IsNil() {
			return "nil"
		}
		return f.Elem().Type().String()
	}
	return f.Type().String()
}

// rawCanon renders a value from its raw content only (no method of the value's type is
// called), for ordering map keys deterministically.
func rawCanon(v reflect.Value) string {
	switch v.Kind() {
	case reflect.Invalid:
		return "<invalid>"
	case reflect.Ptr:
		if v.IsNil() {
			return "<nil>"
		}
		return "&" + rawCanon(v.Elem())
	case reflect.Interface:
		if v.IsNil() {
			return "<nil>"
		}
		return v.Elem().Type().String() + ":" + rawCanon(v.Elem())
	case reflect.Struct:
		parts := make([]string, v.NumField())
		for i := range parts {
			parts[i] = rawCanon(v.Field(i))
		}
		return "{" + strings.Join(parts, ",") + "}"
	case reflect.Slice, reflect.Array:
		parts := make([]string, v.Len())
		for i := range parts {
			parts[i] = rawCanon(v.Index(i))
		}
		return "[" + strings.Join(parts, ",") + "]"
	case reflect.String:
		return strconv.Quote(v.String())
	case reflect.Bool:
		return strconv.FormatBool(v.Bool())
	case reflect.Int, reflect.Int8, reflect.Int16, reflect.Int32, reflect.Int64:
		return fmt.Sprintf("%020d", uint64(v.Int())^(1<<63))
	case reflect.Uint, reflect.Uint8, reflect.Uint16, reflect.Uint32, reflect.Uint64:
		return fmt.Sprintf("%020d", v.Uint())
	case reflect.Float32, reflect.Float64:
		return strconv.FormatFloat(v.Float(), 'g', -1, 64)
	}
	return v.Kind().String()
}

// ---------------------------------------------------------------------------
// deep clone (the harness's own; ygot.DeepCopy is part of the system under test)

// Clone deep-copies any generated tree, including the private fields of ordered maps.
func Clone(v interface{}) interface{} {
	if v == nil {
		return nil
	}
	return cloneValue(reflect.ValueOf(v)).Interface()
}

func cloneValue(v reflect.Value) reflect.Value {
	switch v.Kind() {
	case reflect.Ptr:
		if v.IsNil() {
			return reflect.Zero(v.Type())
		}
		n := reflect.New(v.Type().Elem())
		cloneInto(n.Elem(), v.Elem())
		return n
	default:
		n := reflect.New(v.Type()).Elem()
		cloneInto(n, v)
		return n
	}
}

func cloneInto(dst, src reflect.Value) {
	switch src.Kind() {
	case reflect.Ptr:
		if src.IsNil() {
			return
		}
		n := reflect.New(src.Type().Elem())
		cloneInto(n.Elem(), src.Elem())
		dst.Set(n)
	case reflect.Interface:
		if src.IsNil() {
			return
		}
		dst.Set(cloneValue(src.Elem()))
	case reflect.Struct:
		for i := 0; i < src.NumField(); i++ {
			sf, df := src.Field(i), dst.Field(i)
			if !src.Type().Field(i).IsExported() {
				sf = exposeRO(sf)
				df = expose(df)
			}
			cloneInto(df, sf)
		}
	case reflect.Slice:
		if src.IsNil() {
			return
		}
		n := reflect.MakeSlice(src.Type(), src.Len(), src.Len())
		for i := 0; i < src.Len(); i++ {
			cloneInto(n.Index(i), src.Index(i))
		}
		dst.Set(n)
	case reflect.Map:
		if src.IsNil() {
			return
		}
		n := reflect.MakeMapWithSize(src.Type(), src.Len())
		it := src.MapRange()
		for it.Next() {
			n.SetMapIndex(cloneValue(it.Key()), cloneValue(it.Value()))
		}
		dst.Set(n)
	default:
		dst.Set(src)
	}
}

func exposeRO(f reflect.Value) reflect.Value {
	if f.CanAddr() {
		return expose(f)
	}
	// not addressable: copy through a temporary
	tmp := reflect.New(f.Type()).Elem()
	switch f.Kind() {
	case reflect.Slice, reflect.Map, reflect.Ptr, reflect.Interface:
		// read-only flagged values cannot be Set; rebuild via unsafe is impossible without
		// an address, so callers always pass addressable structs (pointers to structs).
		panic("model.Clone: unaddressable unexported field")
	default:
		_ = tmp
	}
	return f
}
