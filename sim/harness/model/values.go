package model

import (
	"sort"
	"encoding/base64"
	"encoding/json"
	"fmt"
	"reflect"
	"strconv"

	gpb "github.com/openconfig/gnmi/proto/gnmi"
)

// The harness's own encoders of leaf values (independent of ygot.EncodeTypedValue and
// of ygot's JSON renderer): Go leaf value -> gNMI scalar TypedValue, and -> RFC 7951 JSON.

func deref(v reflect.Value) (reflect.Value, bool) {
	for v.Kind() == reflect.Ptr || v.Kind() == reflect.Interface {
		if v.IsNil() {
			return v, false
		}
		if v.Kind() == reflect.Ptr && v.Elem().Kind() == reflect.Struct {
			e := v.Elem()
			if e.NumField() != 1 {
				return v, false
			}
			v = e.Field(0) // wrapper union
			continue
		}
		v = v.Elem()
	}
	return v, true
}

// ScalarTV encodes one scalar (not a leaf-list) as a gNMI TypedValue.
func ScalarTV(v reflect.Value) (*gpb.TypedValue, bool) {
	v, ok := deref(v)
	if !ok {
		return nil, false
	}
	switch v.Kind() {
	case reflect.String:
		return &gpb.TypedValue{Value: &gpb.TypedValue_StringVal{StringVal: v.String()}}, true
	case reflect.Bool:
		return &gpb.TypedValue{Value: &gpb.TypedValue_BoolVal{BoolVal: v.Bool()}}, true
	case reflect.Int64:
		if isEnum(v.Type()) {
			return &gpb.TypedValue{Value: &gpb.TypedValue_StringVal{StringVal: enumName(v)}}, true
		}
		fallthrough
	case reflect.Int, reflect.Int8, reflect.Int16, reflect.Int32:
		return &gpb.TypedValue{Value: &gpb.TypedValue_IntVal{IntVal: v.Int()}}, true
	case reflect.Uint, reflect.Uint8, reflect.Uint16, reflect.Uint32, reflect.Uint64:
		return &gpb.TypedValue{Value: &gpb.TypedValue_UintVal{UintVal: v.Uint()}}, true
	case reflect.Float32, reflect.Float64:
		return &gpb.TypedValue{Value: &gpb.TypedValue_DoubleVal{DoubleVal: v.Float()}}, true
	case reflect.Slice:
		if v.Type().Elem().Kind() == reflect.Uint8 {
			return &gpb.TypedValue{Value: &gpb.TypedValue_BytesVal{BytesVal: append([]byte{}, v.Bytes()...)}}, true
		}
	}
	return nil, false
}

// LeafTV encodes a leaf or leaf-list field value as a TypedValue.
func LeafTV(v reflect.Value) (*gpb.TypedValue, bool) {
	if v.Kind() == reflect.Slice && !(v.Type().Elem().Kind() == reflect.Uint8 && v.Type().Name() == "Binary") {
		arr := &gpb.ScalarArray{}
		for i := 0; i < v.Len(); i++ {
			e, ok := ScalarTV(v.Index(i))
			if !ok {
				return nil, false
			}
			arr.Element = append(arr.Element, e)
		}
		return &gpb.TypedValue{Value: &gpb.TypedValue_LeaflistVal{LeaflistVal: arr}}, true
	}
	return ScalarTV(v)
}

func scalarJSON(v reflect.Value) (interface{}, bool) {
	v, ok := deref(v)
	if !ok {
		return nil, false
	}
	switch v.Kind() {
	case reflect.String:
		return v.String(), true
	case reflect.Bool:
		if v.Type().Name() == "YANGEmpty" {
			return []interface{}{nil}, true
		}
		return v.Bool(), true
	case reflect.Int64:
		if isEnum(v.Type()) {
			return enumJSONName(v), true
		}
		return strconv.FormatInt(v.Int(), 10), true
	case reflect.Int, reflect.Int8, reflect.Int16, reflect.Int32:
		return v.Int(), true
	case reflect.Uint64:
		return strconv.FormatUint(v.Uint(), 10), true
	case reflect.Uint, reflect.Uint8, reflect.Uint16, reflect.Uint32:
		return v.Uint(), true
	case reflect.Float32, reflect.Float64:
		return strconv.FormatFloat(v.Float(), 'f', -1, 64), true
	case reflect.Slice:
		if v.Type().Elem().Kind() == reflect.Uint8 {
			return base64.StdEncoding.EncodeToString(v.Bytes()), true
		}
	}
	return nil, false
}

// LeafJSON encodes a leaf or leaf-list field value as RFC 7951 JSON.
func LeafJSON(v reflect.Value) ([]byte, bool) {
	if v.Kind() == reflect.Slice && !(v.Type().Elem().Kind() == reflect.Uint8 && v.Type().Name() == "Binary") {
		var arr []interface{}
		for i := 0; i < v.Len(); i++ {
			e, ok := scalarJSON(v.Index(i))
			if !ok {
				return nil, false
			}
			arr = append(arr, e)
		}
		b, err := json.Marshal(arr)
		return b, err == nil
	}
	x, ok := scalarJSON(v)
	if !ok {
		return nil, false
	}
	b, err := json.Marshal(x)
	return b, err == nil
}

// JSONTV wraps JSON bytes into a json_ietf_val TypedValue.
func JSONTV(b []byte) *gpb.TypedValue {
	return &gpb.TypedValue{Value: &gpb.TypedValue_JsonIetfVal{JsonIetfVal: b}}
}

// DescribeTV is a short rendering for logs.
func DescribeTV(tv *gpb.TypedValue) string {
	if tv == nil {
		return "<nil>"
	}
	if j := tv.GetJsonIetfVal(); j != nil {
		return "json:" + string(j)
	}
	return fmt.Sprintf("%v", tv.GetValue())
}

// TreeJSON is the harness's own RFC 7951 encoder of a whole generated struct: nested
// objects along the "path" struct tags (every alternative of a leaf, so that compressed
// key leaves appear both at the entry level and under config), arrays for lists. Names
// are not module-qualified.
func TreeJSON(s reflect.Value) map[string]interface{} {
	out := map[string]interface{}{}
	if s.Kind() == reflect.Ptr {
		if s.IsNil() {
			return out
		}
		s = s.Elem()
	}
	t := s.Type()
	put := func(rel string, v interface{}) {
		cur := out
		els := splitRel(rel)
		for i, e := range els {
			if i == len(els)-1 {
				cur[e] = v
				return
			}
			nx, ok := cur[e].(map[string]interface{})
			if !ok {
				nx = map[string]interface{}{}
				cur[e] = nx
			}
			cur = nx
		}
	}
	for i := 0; i < t.NumField(); i++ {
		sf := t.Field(i)
		kind := Classify(sf)
		if kind == FSkip {
			continue
		}
		f := s.Field(i)
		alts := splitAlts(sf.Tag.Get("path"))
		switch kind {
		case FLeaf:
			if !IsSet(f) {
				continue
			}
			if v, ok := scalarJSON(f); ok {
				for _, a := range alts {
					put(a, v)
				}
			}
		case FLeafList:
			if !IsSet(f) {
				if !f.IsNil() {
					// an allocated, empty leaf-list is written as an explicit empty array: "this
					// leaf-list has no elements", which is not the same document as not mentioning it
					for _, a := range alts {
						put(a, []interface{}{})
					}
				}
				continue
			}
			var arr []interface{}
			for j := 0; j < f.Len(); j++ {
				if v, ok := scalarJSON(f.Index(j)); ok {
					arr = append(arr, v)
				}
			}
			for _, a := range alts {
				put(a, arr)
			}
		case FContainer:
			if f.IsNil() {
				continue
			}
			put(alts[0], TreeJSON(f))
		case FList:
			if f.IsNil() || f.Len() == 0 {
				continue
			}
			ks := f.MapKeys()
			sortValues(ks)
			var arr []interface{}
			for _, k := range ks {
				arr = append(arr, TreeJSON(f.MapIndex(k)))
			}
			put(alts[0], arr)
		case FOrderedList:
			if f.IsNil() {
				continue
			}
			st := OrderedInternals(f)
			if !st.OK || st.Keys.Len() == 0 {
				continue
			}
			var arr []interface{}
			for j := 0; j < st.Keys.Len(); j++ {
				arr = append(arr, TreeJSON(st.ValueMap.MapIndex(st.Keys.Index(j))))
			}
			put(alts[0], arr)
		case FUnkeyedList:
			if f.IsNil() || f.Len() == 0 {
				continue
			}
			var arr []interface{}
			for j := 0; j < f.Len(); j++ {
				arr = append(arr, TreeJSON(f.Index(j)))
			}
			put(alts[0], arr)
		}
	}
	return out
}

// FieldPaths gives the data-tree paths (every alternative of the path tag) of a struct field
// whose struct sits at base.
func FieldPaths(sf reflect.StructField, base string) []string {
	var out []string
	for _, a := range splitAlts(sf.Tag.Get("path")) {
		out = append(out, base+"/"+a)
	}
	return out
}

func splitRel(rel string) []string {
	var out []string
	cur := ""
	for i := 0; i < len(rel); i++ {
		if rel[i] == '/' {
			if cur != "" {
				out = append(out, cur)
			}
			cur = ""
			continue
		}
		cur += string(rel[i])
	}
	if cur != "" {
		out = append(out, cur)
	}
	return out
}

func splitAlts(tag string) []string {
	var out []string
	cur := ""
	for i := 0; i < len(tag); i++ {
		if tag[i] == '|' {
			out = append(out, cur)
			cur = ""
			continue
		}
		cur += string(tag[i])
	}
	return append(out, cur)
}

func sortValues(vs []reflect.Value) {
	// first a method-free order (see rawCanon), so that the rendering below - which may call
	// generated methods - visits the values in a fixed order whatever order they came in
	sort.SliceStable(vs, func(a, b int) bool { return rawCanon(vs[a]) < rawCanon(vs[b]) })
	rs := make([]string, len(vs))
	for i, v := range vs {
		rs[i] = Render(v)
	}
	// insertion sort keeps vs and rs aligned
	for i := 1; i < len(vs); i++ {
		for j := i; j > 0 && rs[j] < rs[j-1]; j-- {
			rs[j], rs[j-1] = rs[j-1], rs[j]
			vs[j], vs[j-1] = vs[j-1], vs[j]
		}
	}
}
