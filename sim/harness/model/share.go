package model

import "reflect"

// ShareMemory rewires two trees of the same generated type so that they share memory the
// way trees built by path copying (copy-on-write) do, without changing the content of
// either:
//
//   - subtrees (containers, list entries, whole ordered maps) that are deep-equal become
//     one object referenced from both trees;
//   - leaf-lists and binary values of which one is a proper prefix of the other are laid
//     out in one backing array (`b = a[:n]`, or a grown within capacity to become b), so
//     the two slices start at the same address and differ only in length;
//   - equal leaf-lists / binaries become one slice.
//
// Every Go value involved stays a legal representation of the same YANG data: code that
// compares the two trees must compare contents, never addresses. pick decides per
// opportunity whether to take it. The number of rewirings is returned.
func ShareMemory(a, b interface{}, pick func() bool) int {
	va, vb := reflect.ValueOf(a), reflect.ValueOf(b)
	if va.Kind() != reflect.Ptr || vb.Kind() != reflect.Ptr || va.IsNil() || vb.IsNil() || va.Type() != vb.Type() {
		return 0
	}
	s := &sharer{pick: pick}
	s.structs(va.Elem(), vb.Elem())
	return s.n
}

type sharer struct {
	pick func() bool
	n    int
}

func (s *sharer) structs(a, b reflect.Value) {
	t := a.Type()
	for i := 0; i < t.NumField(); i++ {
		sf := t.Field(i)
		fa, fb := a.Field(i), b.Field(i)
		switch Classify(sf) {
		case FContainer, FOrderedList:
			if fa.IsNil() || fb.IsNil() {
				continue
			}
			if reflect.DeepEqual(fa.Interface(), fb.Interface()) {
				if s.pick() {
					fb.Set(fa)
					s.n++
				}
				continue
			}
			if Classify(sf) == FContainer {
				s.structs(fa.Elem(), fb.Elem())
			}
		case FList:
			if fa.IsNil() || fb.IsNil() {
				continue
			}
			keys := fa.MapKeys()
			sortValues(keys) // the order of pick() draws must not depend on Go's map order
			for _, k := range keys {
				ea, eb := fa.MapIndex(k), fb.MapIndex(k)
				if !eb.IsValid() || ea.Kind() != reflect.Ptr || ea.IsNil() || eb.IsNil() {
					continue
				}
				if reflect.DeepEqual(ea.Interface(), eb.Interface()) {
					if s.pick() {
						fb.SetMapIndex(k, ea)
						s.n++
					}
					continue
				}
				s.structs(ea.Elem(), eb.Elem())
			}
		case FLeafList:
			s.slices(fa, fb)
		case FLeaf:
			if fa.Kind() == reflect.Slice { // Binary
				s.slices(fa, fb)
			}
		}
	}
}

// slices lays two slices out in one backing array when one is a prefix of the other.
func (s *sharer) slices(fa, fb reflect.Value) {
	if fa.IsNil() || fb.IsNil() || fa.Len() == 0 || fb.Len() == 0 {
		return
	}
	short, long := fa, fb
	if fa.Len() > fb.Len() {
		short, long = fb, fa
	}
	for i := 0; i < short.Len(); i++ {
		if !reflect.DeepEqual(short.Index(i).Interface(), long.Index(i).Interface()) {
			return
		}
	}
	if !s.pick() {
		return
	}
	// one array holding the longer content; the shorter value is its prefix
	arr := reflect.MakeSlice(long.Type(), long.Len(), long.Len()+2)
	reflect.Copy(arr, long)
	n := short.Len()
	long.Set(arr)
	short.Set(arr.Slice(0, n))
	s.n++
}

// AliasLeafPointers makes scalar leaves of one tree that hold equal values of one type share
// a single pointer (as happens when one `ygot.String("x")` result is assigned to several
// fields, or when a struct is copied by value). The content of the tree is unchanged; code
// that updates a leaf must store a new pointer, never write through the old one. Returns the
// number of leaves rewired.
func AliasLeafPointers(root interface{}, pick func() bool) int {
	type slot struct{ f reflect.Value }
	groups := map[string][]reflect.Value{}
	var order []string
	var walk func(v reflect.Value)
	walk = func(v reflect.Value) {
		if v.Kind() != reflect.Ptr || v.IsNil() || v.Elem().Kind() != reflect.Struct {
			return
		}
		s := v.Elem()
		t := s.Type()
		for i := 0; i < t.NumField(); i++ {
			f := s.Field(i)
			switch Classify(t.Field(i)) {
			case FLeaf, FLeafList:
				if (f.Kind() == reflect.Ptr && !f.IsNil() && f.Elem().Kind() != reflect.Struct) || (f.Kind() == reflect.Slice && f.Len() > 0) {
					// scalar leaves share a pointer; leaf-lists and binary values share a backing array.
					// Slice-typed leaves are never list keys, so they may also take over the first one's
					// content (this runs on the initial tree, before any history starts): grouped by type.
					k := f.Type().String() + "=" + Render(f)
					if f.Kind() == reflect.Slice {
						k = f.Type().String()
					}
					if _, ok := groups[k]; !ok {
						order = append(order, k)
					}
					groups[k] = append(groups[k], f)
				}
			case FContainer:
				walk(f)
			case FList:
				if f.IsNil() {
					continue
				}
				keys := f.MapKeys()
				sortValues(keys)
				for _, k := range keys {
					walk(f.MapIndex(k))
				}
			case FOrderedList:
				if f.IsNil() {
					continue
				}
				st := OrderedInternals(f)
				if !st.OK {
					continue
				}
				for j := 0; j < st.Keys.Len(); j++ {
					if ev := st.ValueMap.MapIndex(st.Keys.Index(j)); ev.IsValid() {
						walk(ev)
					}
				}
			case FUnkeyedList:
				for j := 0; j < f.Len(); j++ {
					walk(f.Index(j))
				}
			}
		}
	}
	walk(reflect.ValueOf(root))
	n := 0
	for _, k := range order {
		fs := groups[k]
		for i := 1; i < len(fs); i++ {
			if pick() {
				fs[i].Set(fs[0])
				n++
			}
		}
	}
	return n
}
