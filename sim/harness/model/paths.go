package model

import (
	"sort"
	"strings"

	gpb "github.com/openconfig/gnmi/proto/gnmi"
)

// Elem is one parsed path element.
type Elem struct {
	Name string
	Keys map[string]string
}

// ParsePath parses the harness's path strings ("/a/b[k=v][k2=v2]/c"). Key values in the
// workload never contain '[' or ']'.
func ParsePath(p string) []Elem {
	var out []Elem
	for _, part := range splitOutsideBrackets(p) {
		if part == "" {
			continue
		}
		e := Elem{}
		if i := strings.Index(part, "["); i >= 0 {
			e.Name = part[:i]
			rest := part[i:]
			e.Keys = map[string]string{}
			for len(rest) > 0 && rest[0] == '[' {
				j := strings.Index(rest, "]")
				if j < 0 {
					break
				}
				kv := rest[1:j]
				if eq := strings.Index(kv, "="); eq >= 0 {
					e.Keys[kv[:eq]] = kv[eq+1:]
				}
				rest = rest[j+1:]
			}
		} else {
			e.Name = part
		}
		out = append(out, e)
	}
	return out
}

// splitOutsideBrackets splits on '/' that is not inside a [key=value] predicate, so key
// values may contain '/', ':', '=', spaces ... (but not ']').
func splitOutsideBrackets(p string) []string {
	var out []string
	depth := 0
	cur := strings.Builder{}
	for i := 0; i < len(p); i++ {
		ch := p[i]
		switch {
		case ch == '[':
			depth++
			cur.WriteByte(ch)
		case ch == ']':
			if depth > 0 {
				depth--
			}
			cur.WriteByte(ch)
		case ch == '/' && depth == 0:
			out = append(out, cur.String())
			cur.Reset()
		default:
			cur.WriteByte(ch)
		}
	}
	return append(out, cur.String())
}

// FormatPath is the inverse of ParsePath (keys sorted by name).
func FormatPath(es []Elem) string {
	var b strings.Builder
	for _, e := range es {
		b.WriteString("/")
		b.WriteString(e.Name)
		if len(e.Keys) > 0 {
			b.WriteString(FormatKeys(e.Keys))
		}
	}
	if b.Len() == 0 {
		return "/"
	}
	return b.String()
}

// ToGNMI converts to a gNMI path.
func ToGNMI(es []Elem) *gpb.Path {
	p := &gpb.Path{}
	for _, e := range es {
		pe := &gpb.PathElem{Name: e.Name}
		if len(e.Keys) > 0 {
			pe.Key = map[string]string{}
			for k, v := range e.Keys {
				pe.Key[k] = v
			}
		}
		p.Elem = append(p.Elem, pe)
	}
	return p
}

// GNMI parses a path string straight to gNMI.
func GNMI(p string) *gpb.Path { return ToGNMI(ParsePath(p)) }

// FromGNMI renders a gNMI path (with optional prefix) in the harness's format.
func FromGNMI(prefix, p *gpb.Path) string {
	var es []Elem
	add := func(x *gpb.Path) {
		if x == nil {
			return
		}
		for _, pe := range x.Elem {
			e := Elem{Name: pe.Name}
			if len(pe.Key) > 0 {
				e.Keys = map[string]string{}
				for k, v := range pe.Key {
					e.Keys[k] = v
				}
			}
			es = append(es, e)
		}
	}
	add(prefix)
	add(p)
	return FormatPath(es)
}

// IsPrefix reports whether p addresses q or an ancestor of q: element names equal and
// every key p specifies has the same value in q (so keyless and partially keyed list
// elements cover all matching entries).
func IsPrefix(p, q []Elem) bool {
	if len(p) > len(q) {
		return false
	}
	for i := range p {
		if p[i].Name != q[i].Name {
			return false
		}
		for k, v := range p[i].Keys {
			if q[i].Keys[k] != v {
				return false
			}
		}
	}
	return true
}

// Under reports whether path string q is at or below path string p.
func Under(q, p string) bool {
	if p == "/" || p == "" {
		return true
	}
	return IsPrefix(ParsePath(p), ParsePath(q))
}

// LeafUnder reports whether any of the addressable paths of leaf l is at or below p.
func LeafUnder(l *Leaf, p []Elem, preferShadow bool) bool {
	for _, q := range l.Addressable(preferShadow) {
		if IsPrefix(p, ParsePath(q)) {
			return true
		}
	}
	return false
}

// Addressable lists the data-tree paths through which the leaf's field can be reached:
// the "path" tag alternatives, or — when the caller prefers shadow paths and the field has
// any — the "shadow-path" alternatives.
func (l *Leaf) Addressable(preferShadow bool) []string {
	if preferShadow && len(l.Shadow) > 0 {
		return l.Shadow
	}
	return append([]string{l.Path}, l.Alt...)
}

// SortedKeys returns the sorted keys of a string-keyed map.
func SortedKeys[V any](m map[string]V) []string {
	ks := make([]string, 0, len(m))
	for k := range m {
		ks = append(ks, k)
	}
	sort.Strings(ks)
	return ks
}
