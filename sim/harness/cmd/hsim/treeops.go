package main

import (
	"fmt"
	"reflect"
	"sort"
	"strings"

	"github.com/openconfig/goyang/pkg/yang"
	"github.com/openconfig/ygot/verifharness/corpus"
	"github.com/openconfig/ygot/verifharness/gen"
	"github.com/openconfig/ygot/verifharness/model"
	"github.com/openconfig/ygot/ygot"
	"google.golang.org/protobuf/encoding/prototext"
	"google.golang.org/protobuf/proto"
	"verifsim/simrt"
)

// treeCase is the shared setup of the properties that run histories against a whole
// data tree (C10, C12, C13, C03, C04): a corpus package, a seeded initial tree and the
// map-order configuration.
// heldMsg is a result of an earlier call that the harness keeps in its hands: it must not
// change when later calls run (a result that aliases a buffer reused between calls would).
type heldMsg struct {
	what string
	msg  proto.Message
	text string
}

func (s *treeState) hold(what string, m proto.Message) {
	if m == nil || reflect.ValueOf(m).IsNil() {
		return
	}
	s.held = append(s.held, heldMsg{what, m, prototext.Format(m)})
	if len(s.held) > 6 {
		s.held = s.held[len(s.held)-6:]
	}
}

// heldChanged returns a description of the first held result that no longer reads as it did.
func (s *treeState) heldChanged() string {
	for _, h := range s.held {
		if now := prototext.Format(h.msg); now != h.text {
			return fmt.Sprintf("%s returned earlier has changed:\n  was: %s\n  now: %s", h.what, clip(h.text, 300), clip(now, 300))
		}
	}
	return ""
}

type treeState struct {
	held []heldMsg
	p    *corpus.Pkg
	sch  *yang.Entry
	root ygot.GoStruct
	g    *gen.G
	st   *execStats
}

func preload() {
	for _, n := range corpus.Names() {
		p := corpus.Get(n)
		if p.BinaryType != nil {
			gen.BinaryTypeOf[p.BinaryType.PkgPath()] = p.BinaryType
		}
		p.Schema()
		findLists(p)
	}
}

func pickPkg(r *simrt.Rng) *corpus.Pkg {
	var ns []string
	for _, n := range corpusNames() {
		if !corpus.Get(n).HasTag("c15only") && !corpus.Get(n).HasTag("c03only") {
			ns = append(ns, n)
		}
	}
	return corpus.Get(ns[r.Intn(len(ns))])
}

func newTreeState(c *Case, st *execStats) *treeState {
	p := corpus.Get(c.Pkg)
	rs := simrt.NewRng(simrt.Mix(c.Seed, 1))
	simrt.Configure(simrt.MapMode(c.MapMode), c.MapSeed, nil)
	g := gen.New(&rs, c.TreeP)
	sch := p.Schema().RootSchema()
	root := g.Tree(p.RootType(), sch).(ygot.GoStruct)
	return &treeState{p: p, sch: sch, root: root, g: g, st: st}
}

func (s *treeState) model() *model.Model { return model.Walk(s.root, s.sch, "") }

// schemaLeafPaths enumerates, for a struct type, the relative data-tree paths of its
// direct leaf fields (all alternatives).
func directLeafRels(t reflect.Type) []string {
	var out []string
	for i := 0; i < t.NumField(); i++ {
		sf := t.Field(i)
		k := model.Classify(sf)
		if k == model.FLeaf || k == model.FLeafList {
			out = append(out, strings.Split(sf.Tag.Get("path"), "|")...)
		}
	}
	sort.Strings(out)
	return out
}

// drawPath picks a data-tree path for a delete/get style operation: mostly at or above
// existing data, sometimes absent, shadow or garbage. kinds it can return (for probes):
// "leaf", "interior", "list-nokey", "absent-sibling", "absent-key", "shadow", "garbage".
func drawPath(r *simrt.Rng, m *model.Model) (string, string) {
	paths := m.Paths()
	if len(paths) == 0 {
		return "/nonexistent", "garbage"
	}
	l := m.Leaves[paths[r.Intn(len(paths))]]
	addr := l.Addressable(false)
	full := model.ParsePath(addr[r.Intn(len(addr))])
	switch x := r.Intn(20); {
	case x < 6:
		return model.FormatPath(full), "leaf"
	case x < 12:
		n := 1 + r.Intn(len(full))
		es := append([]model.Elem{}, full[:n]...)
		kind := "interior"
		if n == len(full) {
			kind = "leaf"
		}
		if last := es[len(es)-1]; len(last.Keys) > 0 && r.Intn(4) == 0 {
			es[len(es)-1] = model.Elem{Name: last.Name}
			kind = "list-nokey"
		}
		return model.FormatPath(es), kind
	case x < 14:
		// sibling leaf of an existing leaf (set or unset)
		parent := containerOf(m, l)
		if parent.IsValid() {
			rels := directLeafRels(parent.Elem().Type())
			if len(rels) > 0 {
				base := parentPath(m, l)
				return base + "/" + rels[r.Intn(len(rels))], "absent-sibling"
			}
		}
		return model.FormatPath(full), "leaf"
	case x < 17:
		// same path under a different key value
		var idx []int
		for i, e := range full {
			if len(e.Keys) > 0 {
				idx = append(idx, i)
			}
		}
		if len(idx) == 0 {
			return model.FormatPath(full[:1+r.Intn(len(full))]), "interior"
		}
		i := idx[r.Intn(len(idx))]
		es := append([]model.Elem{}, full...)
		nk := map[string]string{}
		for k, v := range es[i].Keys {
			nk[k] = v
		}
		ks := model.SortedKeys(nk)
		k := ks[r.Intn(len(ks))]
		// borrow the value of the same key from another entry of the same list, if any
		lp := model.FormatPath(append(append([]model.Elem{}, es[:i]...), model.Elem{Name: es[i].Name}))
		if others := m.ListKeys[lp]; len(others) > 1 {
			o := model.ParsePath("/x" + others[r.Intn(len(others))])
			if v, ok := o[0].Keys[k]; ok {
				nk[k] = v
			}
		} else {
			nk[k] = nk[k] + "9"
		}
		es[i] = model.Elem{Name: es[i].Name, Keys: nk}
		n := i + 1 + r.Intn(len(es)-i)
		return model.FormatPath(es[:n]), "absent-key"
	case x < 19:
		if len(l.Shadow) > 0 {
			return l.Shadow[r.Intn(len(l.Shadow))], "shadow"
		}
		return model.FormatPath(full), "leaf"
	default:
		es := append([]model.Elem{}, full[:r.Intn(len(full))]...)
		es = append(es, model.Elem{Name: "no-such-node"})
		return model.FormatPath(es), "garbage"
	}
}

// containerOf finds the struct that holds leaf l.
func containerOf(m *model.Model, l *model.Leaf) reflect.Value {
	pp := parentPath(m, l)
	if pp == "" {
		pp = "/"
	}
	return m.Containers[pp]
}

// parentPath is the path of the nearest enclosing container/list entry struct of l.
func parentPath(m *model.Model, l *model.Leaf) string {
	es := model.ParsePath(l.Path)
	for n := len(es) - 1; n >= 0; n-- {
		p := model.FormatPath(es[:n])
		if _, ok := m.Containers[p]; ok {
			if p == "/" {
				return ""
			}
			return p
		}
	}
	return ""
}
