package main

import (
	"bytes"
	"sort"
	"encoding/hex"
	"fmt"
	"os"
	"reflect"
	"strconv"
	"strings"

	gpb "github.com/openconfig/gnmi/proto/gnmi"
	"github.com/openconfig/goyang/pkg/yang"
	"github.com/openconfig/ygot/verifharness/corpus"
	"github.com/openconfig/ygot/verifharness/gen"
	"github.com/openconfig/ygot/verifharness/model"
	"github.com/openconfig/ygot/ygot"
	"github.com/openconfig/ygot/ytypes"
	"google.golang.org/protobuf/encoding/protojson"
	"verifsim/simrt"
)

// C03 — Diff is sound, complete and minimal.
//
// A primary holds successive versions v0 … vn of a tree (each a seeded batch of edits of
// the previous one); a replica starts as an independent copy of v0 and is only ever
// changed by applying the notifications Diff / DiffWithAtomic produce for (vi, vi+1)
// with ytypes.UnmarshalNotifications. The order of deletes and updates inside a
// notification is the iteration order of Go maps inside ygot, i.e. it is chosen by the
// simulator's map-order seam: every step runs under a fresh seeded permutation stream, so
// the replica is driven through delivery orders a real process produces rarely or never.
// Only orders Diff itself can emit are used (the returned message is never shuffled).

func init() {
	register("C03", func() Prop {
		return &histProp{name: "C03", header: c03Header, exec: c03Exec}
	})
}

func c03Header(seed uint64, tier string) *Case {
	r := simrt.NewRng(simrt.Mix(seed, 3003))
	p := pickPkg(&r)
	if seed%12 == 5 {
		for _, n := range corpusNames() {
			if corpus.Get(n).HasTag("sharedcont") {
				p = corpus.Get(n) // two ordered lists in one container
			}
		}
	}
	n := 1 + r.Intn(4)
	if tier == "thorough" {
		n = 1 + r.Intn(8)
	}
	tp := gen.SwarmParams(&r)
	tp.NoNestedOrdered = true // ygot documents nested ordered lists as unsupported by its gNMI renderer
	tp.Unkeyed = false        // Diff documents keyless lists as unsupported
	return &Case{Prop: "C03", Pkg: p.Name, Seed: seed, Faults: seed%2 == 1, MapMode: int(simrt.MapRandom), MapSeed: simrt.Mix(seed, 3), TreeP: tp, NOps: n}
}

func c03Exec(c *Case, generate bool) (*Violation, *execStats) {
	st := newStats()
	s := newTreeState(c, st)
	ro := simrt.NewRng(simrt.Mix(c.Seed, 2))
	cur := s.root                                 // vi
	replica := model.Clone(cur).(ygot.GoStruct)   // driven only by applied diffs
	st.logf("pkg %s tree %s", c.Pkg, gen.Describe(s.model()))
	nops := c.NOps
	if !generate {
		nops = len(c.Ops)
	}
	var deferred *Violation
	for i := 0; i < nops; i++ {
		var op Op
		if generate {
			op = Op{K: "step", A: map[string]string{
				"edit": strconv.FormatUint(ro.Next()%1000000, 10),
				"mode": []string{"plain", "atomic", "atomic"}[ro.Intn(3)],
				"opt":  []string{"none", "none", "single", "shadow", "ignoreadd"}[ro.Intn(5)],
				"rate": []string{"low", "mid", "high"}[ro.Intn(3)],
			}}
			if ro.Intn(4) == 0 {
				op.A["self"] = "1"
			}
			if ro.Intn(3) == 0 {
				op.A["share"] = "1"
			}
			if c.Faults && ro.Intn(4) == 0 {
				op.A["badfirst"] = "1"
			}
			if ro.Intn(3) == 0 {
				op.A["fanout"] = "1"
			}
			if ro.Intn(4) == 0 {
				op.A["empties"] = "1"
			}
			c.Ops = append(c.Ops, op)
		} else {
			op = c.Ops[i]
		}
		st.Steps++
		// a fresh permutation stream per step: the order inside this step's notifications
		stepSeed, _ := strconv.ParseUint(op.arg("edit"), 10, 64)
		simrt.Configure(simrt.MapMode(c.MapMode), simrt.Mix(c.MapSeed, stepSeed+uint64(i)*7919), nil)
		next, v := c03Step(s, op, cur, &replica, stepSeed)
		if v != nil && v.Signature == "C03:zero-valued-union-member" && next != nil {
			// a classified finding does not end the history: note it, resynchronise the
			// replica and keep exploring; any other violation takes precedence
			if deferred == nil {
				deferred = v
			}
			st.logf("%d %s -> finding %s (history continues)", i, op, v.Signature)
			replica = model.Clone(next).(ygot.GoStruct)
			cur = next
			continue
		}
		if v != nil {
			st.logf("%d %s -> VIOLATION %s", i, op, v.Oracle)
			return v, st
		}
		cur = next
	}
	return deferred, st
}

func editParams(rate string) gen.EditParams {
	switch rate {
	case "low":
		return gen.EditParams{PDel: 0.03, PChange: 0.05, PAdd: 0.03, PReorder: 0.2}
	case "high":
		return gen.EditParams{PDel: 0.3, PChange: 0.3, PAdd: 0.3, PReorder: 0.5}
	}
	return gen.DefaultEdit()
}

// tvMatches compares a TypedValue from a notification with the harness's rendering of a
// leaf value.
func tvMatches(tv *gpb.TypedValue, want string) bool {
	if tv == nil {
		return false
	}
	if ll := tv.GetLeaflistVal(); ll != nil {
		if !strings.HasPrefix(want, "[") {
			return false
		}
		parts := splitList(want)
		if len(parts) != len(ll.Element) {
			return false
		}
		for i, e := range ll.Element {
			if !tvMatches(e, parts[i]) {
				return false
			}
		}
		return true
	}
	tag, body := want, ""
	if i := strings.Index(want, ":"); i >= 0 {
		tag, body = want[:i], want[i+1:]
	}
	switch x := tv.GetValue().(type) {
	case *gpb.TypedValue_StringVal:
		switch tag {
		case "s":
			u, err := strconv.Unquote(body)
			return err == nil && u == x.StringVal
		case "e":
			// identityrefs may carry a module prefix
			return x.StringVal == body || strings.HasSuffix(x.StringVal, ":"+body)
		}
	case *gpb.TypedValue_UintVal:
		return tag == "u" && strconv.FormatUint(x.UintVal, 10) == body
	case *gpb.TypedValue_IntVal:
		return tag == "i" && strconv.FormatInt(x.IntVal, 10) == body
	case *gpb.TypedValue_BoolVal:
		return (tag == "b" || tag == "y") && strconv.FormatBool(x.BoolVal) == body
	case *gpb.TypedValue_BytesVal:
		return tag == "x" && hex.EncodeToString(x.BytesVal) == body
	case *gpb.TypedValue_DoubleVal:
		f, err := strconv.ParseFloat(body, 64)
		return tag == "f" && err == nil && f == x.DoubleVal
	case *gpb.TypedValue_FloatVal:
		f, err := strconv.ParseFloat(body, 64)
		return tag == "f" && err == nil && float32(f) == x.FloatVal
	}
	return false
}

// splitList splits the harness's "[a b c]" leaf-list rendering (elements are rendered
// scalars; quoted strings may contain spaces).
func splitList(s string) []string {
	s = strings.TrimSuffix(strings.TrimPrefix(s, "["), "]")
	var out []string
	var cur bytes.Buffer
	inq := false
	for i := 0; i < len(s); i++ {
		ch := s[i]
		switch {
		case ch == '\\' && inq && i+1 < len(s):
			cur.WriteByte(ch)
			i++
			cur.WriteByte(s[i])
		case ch == '"':
			inq = !inq
			cur.WriteByte(ch)
		case ch == ' ' && !inq:
			if cur.Len() > 0 {
				out = append(out, cur.String())
				cur.Reset()
			}
		default:
			cur.WriteByte(ch)
		}
	}
	if cur.Len() > 0 {
		out = append(out, cur.String())
	}
	return out
}

// byAddr indexes the leaves of a model by every addressable path.
func byAddr(m *model.Model, preferShadow bool) map[string]*model.Leaf {
	out := map[string]*model.Leaf{}
	for _, l := range m.Leaves {
		for _, a := range l.Addressable(preferShadow) {
			out[a] = l
		}
	}
	return out
}

// sharedContainerLoss recognises the known finding about containers shared by an ordered list
// and other data nodes: DiffWithAtomic's atomic notification for a changed ordered list has the
// list's parent container as its prefix and carries the list only (and a vanished list is
// deleted at the level of that container), so applying it removes whatever else the container
// holds. Exactly that is recognised, nothing more: every difference must be a leaf of the
// modified tree that is missing from the copy and that
//   - no notification carried, while an atomic prefix or a delete covers it, or
//   - a notification carried and a LATER ATOMIC notification's prefix covers (two changed lists
//     in one container: the second replace removes what the first wrote).
// A leaf that was carried and is removed by a later non-atomic delete, a wrong value, or a leaf
// too many is not this finding. Returns "" when the differences are of another kind.
func sharedContainerLoss(want, got map[string]string, mb *model.Model, notifs []*gpb.Notification, preferShadow bool) string {
	for q, v := range got {
		if w, ok := want[q]; !ok || w != v {
			return ""
		}
	}
	sentIn := map[string]int{} // address -> index of the last notification that carried it
	for i, n := range notifs {
		for _, u := range n.Update {
			sentIn[model.FromGNMI(n.Prefix, u.Path)] = i
		}
	}
	var lost []string
	for q := range want {
		if _, ok := got[q]; ok {
			continue
		}
		l := mb.Leaves[q]
		if l == nil {
			return ""
		}
		explained := false
		for _, a := range l.Addressable(preferShadow) {
			si, sent := sentIn[a]
			for j, n := range notifs {
				if sent && j <= si {
					continue
				}
				if n.Atomic && model.Under(a, model.FromGNMI(n.Prefix, nil)) {
					explained = true
				}
				if !sent {
					for _, d := range n.Delete {
						if model.Under(a, model.FromGNMI(n.Prefix, d)) {
							explained = true
						}
					}
				}
			}
		}
		if !explained {
			return ""
		}
		lost = append(lost, q)
	}
	if len(lost) == 0 {
		return ""
	}
	sort.Strings(lost)
	if len(lost) > 4 {
		lost = append(lost[:4], fmt.Sprintf("… %d more", len(lost)-4))
	}
	return fmt.Sprintf("content of a container that an ordered list shares with other nodes is lost: %v", lost)
}

// c03Step runs one step. A violation is first judged with every set leaf counted; if it
// disappears when zero-valued union members are counted as unset (which is how ygot's
// own traversal treats them), it is reported under the specific signature of that finding.
func c03Step(s *treeState, op Op, cur ygot.GoStruct, replica *ygot.GoStruct, stepSeed uint64) (ygot.GoStruct, *Violation) {
	saved := model.Clone(*replica).(ygot.GoStruct)
	next, v := c03StepView(s, op, cur, replica, stepSeed, false)
	if v == nil || v.Oracle == "panic" {
		return next, v
	}
	*replica = saved
	next2, v2 := c03StepView(s, op, cur, replica, stepSeed, true)
	if v2 == nil {
		s.st.Probes["zero_valued_union_member_seen"]++
		return next2, violation("C03", v.Oracle, "C03:zero-valued-union-member", "a union leaf holding the zero value of its member type is treated as unset: %s", v.Msg)
	}
	return next, v
}

func c03StepView(s *treeState, op Op, cur ygot.GoStruct, replica *ygot.GoStruct, stepSeed uint64, ygotView bool) (ygot.GoStruct, *Violation) {
	mode, opt := op.arg("mode"), op.arg("opt")
	sigp := "C03:" + mode + ":" + opt + ":"
	// build vi+1
	re := simrt.NewRng(simrt.Mix(stepSeed, 77))
	eg := gen.New(&re, s.g.P)
	next := model.Clone(cur).(ygot.GoStruct)
	if sp := op.arg("setpath"); sp != "" {
		// a pinned case names its one edit explicitly (a path and a TypedValue), so that it does
		// not depend on what the generators make of a seed
		tv := &gpb.TypedValue{}
		if err := protojson.Unmarshal([]byte(op.arg("settv")), tv); err != nil {
			panic("C03: bad pinned TypedValue: " + err.Error())
		}
		if err := ytypes.SetNode(s.sch, next, model.GNMI(sp), tv, &ytypes.InitMissingElements{}); err != nil {
			panic("C03: pinned edit cannot be applied: " + err.Error())
		}
	} else if op.arg("self") != "1" {
		eg.Mutate(reflect.ValueOf(next).Elem(), s.sch, 0, editParams(op.arg("rate")))
	}
	if op.arg("empties") == "1" {
		// keyed and ordered lists that are absent from the new version are sometimes present
		// as allocated, empty lists instead (what emptying a list with Delete leaves behind):
		// the same YANG content, so the same diff
		if injectEmpties(reflect.ValueOf(next), &re) > 0 {
			s.st.Probes["version_with_empty_non_nil_lists"]++
		}
	}
	if op.arg("share") == "1" {
		// the two versions share memory the way path-copied (copy-on-write) trees do: equal
		// subtrees are one object, a leaf-list that grew or shrank starts at the same address
		// as its predecessor. Contents are unchanged, so Diff must give the same answer.
		if n := model.ShareMemory(cur, next, func() bool { return re.Intn(3) > 0 }); n > 0 {
			s.st.Probes["versions_share_memory"]++
		}
	}
	ma, mb := model.Walk(cur, s.sch, ""), model.Walk(next, s.sch, "")
	fpA, fpB := ma.Fingerprint(), mb.Fingerprint()
	flat := func(m *model.Model) map[string]string {
		if ygotView {
			return m.FlatNoZeroUnion()
		}
		return m.Flat()
	}
	if ygotView {
		for _, m := range []*model.Model{ma, mb} {
			for q, l := range m.Leaves {
				if l.ZeroUnion {
					delete(m.Leaves, q)
				}
			}
		}
	}
	fa, fb := flat(ma), flat(mb)
	var opts []ygot.DiffOpt
	var uopts []ytypes.UnmarshalOpt
	preferShadow := false
	switch opt {
	case "single":
		opts = append(opts, &ygot.DiffPathOpt{MapToSinglePath: true})
	case "shadow":
		opts = append(opts, &ygot.DiffPathOpt{PreferShadowPath: true})
		uopts = append(uopts, &ytypes.PreferShadowPath{})
		preferShadow = true
	case "ignoreadd":
		opts = append(opts, &ygot.IgnoreAdditions{})
	}
	if op.arg("badfirst") == "1" {
		// a failing call in front of the real one: Diff against a version that is not
		// schema-conforming (a list entry whose key leaf is unset). What it returns is not this
		// property's business; what the NEXT call returns is.
		bad := model.Clone(next).(ygot.GoStruct)
		if breakOneKeyLeaf(reflect.ValueOf(bad), s.sch) {
			var berr error
			callSUT(func() {
				if mode == "atomic" {
					_, berr = ygot.DiffWithAtomic(cur, bad, opts...)
				} else {
					_, berr = ygot.Diff(cur, bad, opts...)
				}
			})
			s.st.Faults["diff_of_invalid_version_first"]++
			if berr != nil {
				s.st.Faults["failing_diff"]++
			}
		}
	}
	var notifs []*gpb.Notification
	var err error
	if p := callSUT(func() {
		if mode == "atomic" {
			notifs, err = ygot.DiffWithAtomic(cur, next, opts...)
		} else {
			var n *gpb.Notification
			n, err = ygot.Diff(cur, next, opts...)
			if n != nil {
				notifs = []*gpb.Notification{n}
			}
		}
	}); p != nil {
		return nil, violation("C03", "panic", "C03:panic:diff:"+mode, "Diff panicked: %v\n%s", p.v, trimStack(p.stack))
	}
	if os.Getenv("HSIM_TRACE") != "" {
		for i, n := range notifs {
			s.st.logf("notification %d: %s", i, canonNotif(n))
		}
	}
	if err != nil {
		return nil, violation("C03", "diff-error", sigp+"diff-error", "Diff of two schema-conforming trees failed: %v", err)
	}
	// the notifications of earlier steps are still in the harness's hands: this call must not
	// have changed them
	if ch := s.heldChanged(); ch != "" {
		return nil, violation("C03", "earlier-result-changed", "C03:"+mode+":earlier-result-changed", "after the next Diff call, %s", ch)
	}

	// inputs are untouched (otherwise every later step of the history is meaningless)
	if model.Walk(cur, s.sch, "").Fingerprint() != fpA || model.Walk(next, s.sch, "").Fingerprint() != fpB {
		s.st.Probes["diff_mutated_an_input"]++
	}
	nd, nu := 0, 0
	for _, n := range notifs {
		nd += len(n.Delete)
		nu += len(n.Update)
	}
	changed := len(model.DiffFlat(fa, fb, 1)) > 0
	orderChanged := false
	for lp := range mb.Ordered {
		if fmt.Sprint(ma.ListKeys[lp]) != fmt.Sprint(mb.ListKeys[lp]) {
			orderChanged = true
		}
	}
	if op.arg("self") == "1" {
		s.st.Probes["diff_of_equal_trees"]++
		if nd+nu != 0 {
			return nil, violation("C03", "not-empty", sigp+"self-nonempty", "Diff of a tree with an equal tree is not empty: %d deletes, %d updates", nd, nu)
		}
	}
	// soundness / minimality of every update and delete
	addrA, addrB := byAddr(ma, preferShadow), byAddr(mb, preferShadow)
	for _, n := range notifs {
		for _, u := range n.Update {
			p := model.FromGNMI(n.Prefix, u.Path)
			lb, ok := addrB[p]
			if !ok {
				return nil, violation("C03", "unsound-update", sigp+"update-unknown-leaf", "update %s = %s names no leaf set in the modified tree", p, model.DescribeTV(u.Val))
			}
			if !tvMatches(u.Val, lb.Val) {
				return nil, violation("C03", "unsound-update", sigp+"update-wrong-value", "update %s carries %s but the modified tree holds %s", p, model.DescribeTV(u.Val), lb.Val)
			}
			if n.Atomic {
				continue // atomic notifications restate their whole subtree by design
			}
			if la, inA := addrA[p]; inA && la.Val == lb.Val {
				return nil, violation("C03", "not-minimal", sigp+"update-unchanged", "update %s = %s although the original tree already holds that value", p, lb.Val)
			}
		}
		for _, d := range n.Delete {
			p := model.FromGNMI(n.Prefix, d)
			if _, inB := addrB[p]; inB {
				return nil, violation("C03", "unsound-delete", sigp+"delete-still-set", "delete %s although the modified tree has that leaf", p)
			}
			if _, inA := addrA[p]; inA {
				continue
			}
			// DiffWithAtomic deletes a vanished ordered list at the level of its parent
			okOrdered := false
			if mode == "atomic" {
				for lp := range ma.Ordered {
					if len(ma.ListKeys[lp]) > 0 && len(mb.ListKeys[lp]) == 0 && model.Under(lp, p) {
						okOrdered = true
					}
				}
			}
			if !okOrdered {
				return nil, violation("C03", "unsound-delete", sigp+"delete-unknown-leaf", "delete %s names no leaf set in the original tree", p)
			}
		}
	}
	// completeness: applying the notifications to the replica gives the modified tree
	var twin ygot.GoStruct
	if op.arg("fanout") == "1" {
		twin = model.Clone(*replica).(ygot.GoStruct) // a second replica that gets the same notifications afterwards
	}
	schema := &ytypes.Schema{Root: *replica, SchemaTree: s.p.Schema().SchemaTree, Unmarshal: s.p.Unmarshal}
	if p := callSUT(func() { err = ytypes.UnmarshalNotifications(schema, notifs, uopts...) }); p != nil {
		return nil, violation("C03", "panic", "C03:panic:apply:"+mode, "UnmarshalNotifications of Diff's output panicked: %v\n%s", p.v, trimStack(p.stack))
	}
	if err != nil {
		return nil, violation("C03", "apply-error", sigp+"apply-error", "the notifications Diff produced (%d deletes, %d updates) cannot be applied to a copy of the original: %v", nd, nu, err)
	}
	*replica = schema.Root.(ygot.GoStruct)
	mr := model.Walk(*replica, s.sch, "")
	if os.Getenv("HSIM_TRACE") != "" {
		for lp := range mr.Ordered {
			s.st.logf("after apply: ordered %s a=%v b=%v replica=%v (in b: %v)", lp, ma.ListKeys[lp], mb.ListKeys[lp], mr.ListKeys[lp], mb.Ordered[lp])
		}
	}
	want := fb
	if opt == "ignoreadd" {
		// exactly the leaves new in b are omitted - except that DiffWithAtomic restates a
		// changed ordered list as a whole (an atomic subtree cannot be sent partially)
		want = map[string]string{}
		for q, v := range fb {
			if _, inA := fa[q]; inA {
				want[q] = v
				continue
			}
			if mode == "atomic" {
				for lp := range mb.Ordered {
					if len(ma.ListKeys[lp]) > 0 && model.Under(q, lp) && fmt.Sprint(orderedSubtree(ma, lp)) != fmt.Sprint(orderedSubtree(mb, lp)) {
						want[q] = v
					}
				}
			}
		}
	}
	if d := model.DiffFlat(want, flat(mr), 6); len(d) > 0 {
		if s.p.HasTag("sharedcont") {
			if what := sharedContainerLoss(want, flat(mr), mb, notifs, preferShadow); what != "" {
				s.st.Probes["shared_container_content_lost"]++
				return nil, violation("C03", "incomplete", "C03:shared-container:sibling-lost", "after applying DiffWithAtomic's %d notifications the copy differs from the modified tree: %s", len(notifs), what)
			}
		}
		return nil, violation("C03", "incomplete", sigp+"replica-differs", "after applying Diff's %d deletes and %d updates (%d notifications) the copy differs from the modified tree: %v", nd, nu, len(notifs), d)
	}
	if twin != nil {
		// the same notifications delivered to a second replica (fan-out) must take it to the same
		// state: applying them once must not have used them up or rewritten them
		schema2 := &ytypes.Schema{Root: twin, SchemaTree: s.p.Schema().SchemaTree, Unmarshal: s.p.Unmarshal}
		var err2 error
		if p := callSUT(func() { err2 = ytypes.UnmarshalNotifications(schema2, notifs, uopts...) }); p != nil {
			return nil, violation("C03", "panic", "C03:panic:apply:"+mode, "the second delivery of Diff's output panicked: %v\n%s", p.v, trimStack(p.stack))
		}
		if err2 != nil {
			return nil, violation("C03", "apply-error", sigp+"second-delivery-error", "the notifications applied to one replica cannot be applied to a second one: %v", err2)
		}
		mt := model.Walk(schema2.Root.(ygot.GoStruct), s.sch, "")
		if d := model.DiffFlat(flat(mr), flat(mt), 6); len(d) > 0 {
			return nil, violation("C03", "incomplete", sigp+"second-delivery-differs", "a second replica given the same %d notifications ends up different from the first: %v", len(notifs), d)
		}
		s.st.Probes["notifications_delivered_twice"]++
	}
	if mode == "atomic" && opt != "ignoreadd" {
		for lp := range mb.Ordered {
			if fmt.Sprint(mb.ListKeys[lp]) != fmt.Sprint(mr.ListKeys[lp]) {
				return nil, violation("C03", "order", sigp+"order", "after applying DiffWithAtomic the ordered list %s is %v, the modified tree has %v", lp, mr.ListKeys[lp], mb.ListKeys[lp])
			}
		}
		if orderChanged {
			s.st.Probes["ordered_list_order_changed"]++
		}
	}
	if opt == "ignoreadd" {
		// the replica now legitimately lags behind; resynchronise it so later steps start equal
		*replica = model.Clone(next).(ygot.GoStruct)
	}
	if mode == "plain" {
		// plain Diff is documented not to convey ordered-list order: resynchronise it. That
		// includes an ordered list that is gone from the modified tree while the copy keeps an
		// entry without any leaf (plain Diff deletes leaf by leaf; the leaf sets are equal, which
		// is all it promises) - left alone, that entry would be held against a later
		// DiffWithAtomic step that has nothing to do with it
		lps := map[string]bool{}
		for lp := range mb.Ordered {
			lps[lp] = true
		}
		for lp := range mr.Ordered {
			lps[lp] = true
		}
		for lp := range lps {
			if fmt.Sprint(mb.ListKeys[lp]) != fmt.Sprint(mr.ListKeys[lp]) {
				*replica = model.Clone(next).(ygot.GoStruct)
				s.st.Probes["plain_step_order_resync"]++
				break
			}
		}
	}
	if changed {
		s.st.Probes["state_changes"]++
	}
	if nd > 0 {
		s.st.Probes["steps_with_deletes"]++
	}
	if nd > 1 {
		s.st.Probes["steps_with_two_or_more_deletes"]++
	}
	if len(notifs) > 1 {
		s.st.Probes["steps_with_atomic_notifications"]++
	}
	s.st.Probes["opt:"+opt]++
	s.st.Probes["mode:"+mode]++
	for lp := range ma.ListKeys {
		if len(ma.ListKeys[lp]) > len(mb.ListKeys[lp]) {
			s.st.Probes["list_entry_removed"]++
			break
		}
	}
	s.st.logf("step edit=%s mode=%s opt=%s: %d deletes %d updates %d notifs, leaves %d -> %d", op.arg("edit"), mode, opt, nd, nu, len(notifs), len(fa), len(fb))
	// held from here on (after they have been applied: what the application itself does to
	// its input is not this property's business)
	for _, n := range notifs {
		s.hold("a notification Diff", n)
	}
	return next, nil
}

// breakOneKeyLeaf unsets one key leaf of the first keyed-list entry it finds (depth first, in a
// deterministic order), which makes the tree non-conforming.
func breakOneKeyLeaf(v reflect.Value, sch *yang.Entry) bool {
	if v.Kind() != reflect.Ptr || v.IsNil() || v.Elem().Kind() != reflect.Struct {
		return false
	}
	s := v.Elem()
	t := s.Type()
	for i := 0; i < t.NumField(); i++ {
		sf := t.Field(i)
		f := s.Field(i)
		csch := model.Child(sch, strings.Split(sf.Tag.Get("path"), "|")[0])
		switch model.Classify(sf) {
		case model.FContainer:
			if breakOneKeyLeaf(f, csch) {
				return true
			}
		case model.FList:
			if f.IsNil() || f.Len() == 0 || csch == nil {
				continue
			}
			ks := f.MapKeys()
			sort.Slice(ks, func(a, b int) bool { return model.Render(ks[a]) < model.Render(ks[b]) })
			e := f.MapIndex(ks[0])
			for _, kn := range model.KeyNames(csch) {
				if fi, ok := model.KeyField(e.Elem().Type(), kn); ok {
					kf := e.Elem().Field(fi)
					if kf.Kind() == reflect.Ptr || kf.Kind() == reflect.Interface {
						kf.Set(reflect.Zero(kf.Type()))
						return true
					}
				}
			}
		}
	}
	return false
}

// orderedSubtree renders everything the model knows below an ordered list (order and leaves).
func orderedSubtree(m *model.Model, lp string) []string {
	out := append([]string{}, m.ListKeys[lp]...)
	for _, q := range m.Paths() {
		if model.Under(q, lp) {
			out = append(out, q+"="+m.Leaves[q].Val)
		}
	}
	return out
}
