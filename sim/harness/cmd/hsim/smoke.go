package main

import (
	"fmt"
	"reflect"

	"github.com/openconfig/ygot/verifharness/corpus"
	"github.com/openconfig/ygot/verifharness/gen"
	"github.com/openconfig/ygot/verifharness/model"
	"github.com/openconfig/ygot/ygot"
	"verifsim/simrt"
)

// rootSchema returns the yang.Entry of the fake root of a corpus package.
func rootSchema(p *corpus.Pkg) *corpus.Entry {
	return p.Schema().RootSchema()
}

func smokeRun(emit func(any)) {
	for _, name := range corpus.Names() {
		p := corpus.Get(name)
		sch := rootSchema(p)
		for seed := uint64(1); seed <= 20; seed++ {
			r := simrt.NewRng(seed)
			g := gen.New(&r, gen.SwarmParams(&r))
			g.P.Unkeyed = seed%2 == 0
			t := g.Tree(p.RootType(), sch)
			m := model.Walk(t, sch, "")
			c := model.Clone(t)
			m2 := model.Walk(c, sch, "")
			same := m.Fingerprint() == m2.Fingerprint()
			n := g.Mutate(reflect.ValueOf(c).Elem(), sch, 0, gen.DefaultEdit())
			m3 := model.Walk(c, sch, "")
			m4 := model.Walk(t, sch, "")
			verr := ""
			if err := t.(ygot.ValidatedGoStruct).Validate(); err != nil {
				verr = err.Error()
				if len(verr) > 300 {
					verr = verr[:300]
				}
			}
			emit(map[string]any{"pkg": name, "seed": seed, "leaves": len(m.Leaves), "containers": len(m.Containers), "problems": m.Problems,
				"clone_same": same, "edits": n, "diff_after_edit": len(model.DiffFlat(m.Flat(), m3.Flat(), 0)), "orig_untouched": m.Fingerprint() == m4.Fingerprint(),
				"validate": verr, "desc": fmt.Sprint(gen.Describe(m))})
		}
	}
}
