package main

import (
	"fmt"
	"reflect"
	"strings"

	"github.com/openconfig/goyang/pkg/yang"
	"github.com/openconfig/ygot/verifharness/corpus"
	"github.com/openconfig/ygot/verifharness/gen"
	"github.com/openconfig/ygot/verifharness/model"
)

// step is one hop from a struct to a child struct on the way to a list's parent.
type step struct {
	Field int
	Kind  model.FieldKind
	Rel   string
}

// listTarget is one list field (keyed map or ordered map) of a generated package.
type listTarget struct {
	Pkg       *corpus.Pkg
	Steps     []step       // from the root struct to the parent struct
	Parent    reflect.Type // struct type holding the list field
	ParentSch *yang.Entry
	Field     int
	FieldName string
	Kind      model.FieldKind // FList or FOrderedList
	ListSch   *yang.Entry
	ElemType  reflect.Type // struct type of a list entry
	KeyType   reflect.Type
	Path      string // schema-ish path for reporting
}

func (t *listTarget) String() string {
	return fmt.Sprintf("%s:%s.%s", t.Pkg.Name, t.Parent.Name(), t.FieldName)
}

// findLists enumerates every keyed list reachable from the root type.
func findLists(p *corpus.Pkg) []*listTarget {
	var out []*listTarget
	seen := map[reflect.Type]bool{}
	var rec func(t reflect.Type, sch *yang.Entry, steps []step, path string)
	rec = func(t reflect.Type, sch *yang.Entry, steps []step, path string) {
		if seen[t] || len(steps) > 8 {
			return
		}
		seen[t] = true
		for i := 0; i < t.NumField(); i++ {
			sf := t.Field(i)
			kind := model.Classify(sf)
			rel := strings.Split(sf.Tag.Get("path"), "|")[0]
			csch := model.Child(sch, rel)
			ns := append(append([]step{}, steps...), step{i, kind, rel})
			switch kind {
			case model.FContainer:
				rec(sf.Type.Elem(), csch, ns, path+"/"+rel)
			case model.FList:
				lt := &listTarget{Pkg: p, Steps: steps, Parent: t, ParentSch: sch, Field: i, FieldName: sf.Name, Kind: kind, ListSch: csch,
					ElemType: sf.Type.Elem().Elem(), KeyType: sf.Type.Key(), Path: path + "/" + rel}
				out = append(out, lt)
				rec(sf.Type.Elem().Elem(), csch, ns, path+"/"+rel)
			case model.FOrderedList:
				vm, ok := sf.Type.Elem().FieldByName("valueMap")
				if !ok {
					continue
				}
				lt := &listTarget{Pkg: p, Steps: steps, Parent: t, ParentSch: sch, Field: i, FieldName: sf.Name, Kind: kind, ListSch: csch,
					ElemType: vm.Type.Elem().Elem(), KeyType: vm.Type.Key(), Path: path + "/" + rel}
				out = append(out, lt)
				rec(vm.Type.Elem().Elem(), csch, ns, path+"/"+rel)
			}
		}
	}
	rec(p.RootType(), p.Schema().RootSchema(), nil, "")
	return out
}

// instantiate builds a root tree in which the parent struct of the target exists, and
// returns (root, parent). List entries on the way are created with generated keys.
func (t *listTarget) instantiate(g *gen.G) (root reflect.Value, parent reflect.Value) {
	root = reflect.New(t.Pkg.RootType())
	cur := root
	sch := t.Pkg.Schema().RootSchema()
	for _, st := range t.Steps {
		s := cur.Elem()
		f := s.Field(st.Field)
		csch := model.Child(sch, st.Rel)
		switch st.Kind {
		case model.FContainer:
			if f.IsNil() {
				f.Set(reflect.New(f.Type().Elem()))
			}
			cur = f
		case model.FList:
			if f.IsNil() {
				f.Set(reflect.MakeMap(f.Type()))
			}
			saveP := g.P
			g.P.PLeaf, g.P.PContainer, g.P.PList = 0, 0, 0
			var e, k reflect.Value
			ok := false
			for try := 0; try < 10 && !ok; try++ {
				e, k, ok = g.NewEntry(f.Type().Elem().Elem(), f.Type().Key(), csch, 0)
			}
			g.P = saveP
			if !ok {
				panic("instantiate: cannot create list entry for " + t.String())
			}
			f.SetMapIndex(k, e)
			cur = e
		case model.FOrderedList:
			if f.IsNil() {
				om := reflect.New(f.Type().Elem())
				st2 := model.OrderedInternals(om)
				st2.ValueMap.Set(reflect.MakeMap(st2.ValueMap.Type()))
				f.Set(om)
			}
			saveP := g.P
			g.P.PLeaf, g.P.PContainer, g.P.PList = 0, 0, 0
			ok := false
			for try := 0; try < 10 && !ok; try++ {
				ok = g.AddOrderedEntry(f, csch, 0)
			}
			g.P = saveP
			if !ok {
				panic("instantiate: cannot create ordered entry for " + t.String())
			}
			// scenery: in half of the cases the outer ordered list gets one or two further,
			// fully populated entries (with inner ordered lists of their own), so that whatever
			// walks the tree walks ordered lists from inside the walk of an ordered list
			if g.R.Intn(2) == 0 {
				g.P.PLeaf, g.P.PContainer, g.P.PList, g.P.MaxList = 0.7, 0.8, 1, 3
				for n := 1 + g.R.Intn(2); n > 0; n-- {
					g.AddOrderedEntry(f, csch, 0)
				}
				g.P = saveP
			}
			st2 := model.OrderedInternals(f)
			cur = st2.ValueMap.MapIndex(st2.Keys.Index(0))
		}
		sch = csch
	}
	return root, cur
}

// keyPool generates up to n distinct key tuples for the target, each with a prototype
// entry whose key leaves are set accordingly (and nothing else).
type poolKey struct {
	Key   reflect.Value // Go map key
	Proto reflect.Value // *Elem with key leaves set
	Str   string        // [k=v] rendering
}

func (t *listTarget) keyPool(g *gen.G, n int) []poolKey {
	saveP := g.P
	g.P.PLeaf, g.P.PContainer, g.P.PList = 0, 0, 0
	defer func() { g.P = saveP }()
	var out []poolKey
	seen := map[string]bool{}
	names := model.KeyNames(t.ListSch)
	if t.unionKeyed() && t.Pkg.HasTag("c15only") {
		g.ZeroUnionKeys = true
		defer func() { g.ZeroUnionKeys = false }()
		// a union key holding the zero value of its member type (UnionUint32(0), UnionInt64(0))
		// is an ordinary key: make sure the pool has one
		for try := 0; try < 200; try++ {
			e, k, ok := g.NewEntry(t.ElemType, t.KeyType, t.ListSch, 0)
			if !ok {
				continue
			}
			if r := model.Render(k); r == "u:0" || r == "i:0" || strings.Contains(r, "u:0 ") || strings.Contains(r, " u:0") || strings.Contains(r, "i:0 ") || strings.Contains(r, " i:0") {
				s := model.FormatKeys(model.MapKeyStrings(k, names))
				seen[s] = true
				out = append(out, poolKey{Key: k, Proto: e, Str: s})
				break
			}
		}
	}
	if t.allStringKeys() >= 2 && g.R.Intn(2) == 0 {
		// two different key tuples that read the same once their parts are joined by a space
		// ("x y","a") and ("x","y a"): whatever identifies a member by a printed form of its key
		// confuses them
		saveS := g.Strs
		g.Strs = []string{"x y", "a", "x", "y a"}
		want := map[string]bool{"x y|a": true, "x|y a": true}
		for try := 0; try < 400 && len(want) > 0; try++ {
			e, k, ok := g.NewEntry(t.ElemType, t.KeyType, t.ListSch, 0)
			if !ok {
				continue
			}
			ks := model.MapKeyStrings(k, names)
			var parts []string
			for _, nm := range names {
				parts = append(parts, ks[nm])
			}
			id := parts[0] + "|" + strings.Join(parts[1:], " ")
			if !want[id] {
				continue
			}
			delete(want, id)
			s := model.FormatKeys(ks)
			seen[s] = true
			out = append(out, poolKey{Key: k, Proto: e, Str: s})
		}
		g.Strs = saveS
	}
	for try := 0; try < 40 && len(out) < n; try++ {
		e, k, ok := g.NewEntry(t.ElemType, t.KeyType, t.ListSch, 0)
		if !ok {
			continue
		}
		s := model.FormatKeys(model.MapKeyStrings(k, names))
		if seen[s] {
			continue
		}
		seen[s] = true
		out = append(out, poolKey{Key: k, Proto: e, Str: s})
	}
	return out
}

// allStringKeys returns the number of key leaves when the key is a key struct made of
// strings only, 0 otherwise.
func (t *listTarget) allStringKeys() int {
	if t.KeyType.Kind() != reflect.Struct {
		return 0
	}
	for i := 0; i < t.KeyType.NumField(); i++ {
		if t.KeyType.Field(i).Type.Kind() != reflect.String {
			return 0
		}
	}
	return t.KeyType.NumField()
}

// keyArgs splits a Go map key into the argument list of the generated helpers
// (one argument per key leaf, in key-struct field order).
func keyArgs(k reflect.Value) []reflect.Value {
	kk := k
	for kk.Kind() == reflect.Interface {
		kk = kk.Elem()
	}
	if kk.Kind() == reflect.Struct {
		if _, isKeyStruct := kk.Type().MethodByName("IsYANGGoKeyStruct"); isKeyStruct {
			var out []reflect.Value
			for i := 0; i < kk.NumField(); i++ {
				out = append(out, kk.Field(i))
			}
			return out
		}
	}
	return []reflect.Value{k}
}

// callArgs adapts values to a method's parameter types (interface-typed union keys).
func callArgs(m reflect.Value, args []reflect.Value) []reflect.Value {
	mt := m.Type()
	out := make([]reflect.Value, len(args))
	for i, a := range args {
		if i < mt.NumIn() {
			pt := mt.In(i)
			if a.Type() != pt {
				n := reflect.New(pt).Elem()
				v := a
				for v.Kind() == reflect.Interface && pt.Kind() != reflect.Interface {
					v = v.Elem()
				}
				if v.Type().AssignableTo(pt) {
					n.Set(v)
					a = n
				} else if v.Type().ConvertibleTo(pt) {
					n.Set(v.Convert(pt))
					a = n
				}
			}
		}
		out[i] = a
	}
	return out
}

func errOf(v reflect.Value) error {
	if v.IsNil() {
		return nil
	}
	return v.Interface().(error)
}
