package main

import (
	"fmt"
	"reflect"
	"strconv"
	"strings"

	"github.com/openconfig/goyang/pkg/yang"

	"github.com/openconfig/ygot/verifharness/gen"
	"github.com/openconfig/ygot/verifharness/model"
	"github.com/openconfig/ygot/ygot"
	"verifsim/simrt"
)

// C04 — DeepCopy / MergeStructs results share no mutable memory with their inputs.
//
// State: (s, c = DeepCopy(s)) or (a, b, m = MergeStructs(a, b)). A seeded history of
// in-place mutations is applied to one side: writes through every kind of reachable
// mutable location found by reflection (pointer targets, map entries, slice elements
// including the bytes of binary values and the elements of unkeyed lists, wrapper-union
// structs, ordered-map internals). After each step the deep fingerprint of the *other*
// side must be unchanged.

func init() {
	register("C04", func() Prop {
		return &histProp{name: "C04", header: c04Header, exec: c04Exec}
	})
}

func c04Header(seed uint64, tier string) *Case {
	r := simrt.NewRng(simrt.Mix(seed, 4004))
	p := pickPkg(&r)
	n := 2 + r.Intn(8)
	if tier == "thorough" {
		n = 2 + r.Intn(24)
	}
	tp := gen.SwarmParams(&r)
	tp.Unkeyed = true
	tp.PLeaf = []float64{0.5, 0.8, 1.0}[r.Intn(3)]
	scenario := []string{"deepcopy", "deepcopy", "merge", "deepcopy", "merge-emptymaps", "merge-overwrite"}[r.Intn(6)]
	if p.HasTag("wrapperunion") {
		// lists keyed by wrapper unions are keyed by pointer identity: merging two trees holds
		// equal key values under distinct pointers, i.e. two entries for one YANG key, and no
		// path -> value view of such a tree is well defined. Only DeepCopy is exercised there.
		scenario = "deepcopy"
	}
	return &Case{Prop: "C04", Pkg: p.Name, Seed: seed, Target: scenario,
		MapMode: int(simrt.MapRandom), MapSeed: simrt.Mix(seed, 3), TreeP: tp, NOps: n}
}

// location is one mutable place inside a tree plus a way to scribble on it.
type location struct {
	Desc   string
	Kind   string
	Mutate func()
}

func bump(v reflect.Value) bool {
	if !v.CanSet() {
		return false
	}
	switch v.Kind() {
	case reflect.String:
		v.SetString(v.String() + "!")
	case reflect.Bool:
		v.SetBool(!v.Bool())
	case reflect.Int, reflect.Int8, reflect.Int16, reflect.Int32, reflect.Int64:
		v.SetInt(v.Int() ^ 1)
	case reflect.Uint, reflect.Uint8, reflect.Uint16, reflect.Uint32, reflect.Uint64:
		v.SetUint(v.Uint() ^ 1)
	case reflect.Float32, reflect.Float64:
		v.SetFloat(v.Float() + 1)
	default:
		return false
	}
	return true
}

// locations enumerates mutable places reachable from a tree, deterministically.
//
// mk returns a fresh seeded generator for the mutations that insert new list entries.
func locations(root interface{}, rootSch *yang.Entry, mk func() *gen.G) []location {
	var out []location
	var walk func(v reflect.Value, sch *yang.Entry, path string)
	add := func(kind, desc string, f func()) { out = append(out, location{Desc: desc, Kind: kind, Mutate: f}) }
	walkLeaf := func(f reflect.Value, p string) {
		switch f.Kind() {
		case reflect.Ptr:
			if f.IsNil() {
				return
			}
			if f.Elem().Kind() == reflect.Struct {
				// wrapper union struct
				e := f.Elem()
				if e.NumField() == 1 {
					fld := e.Field(0)
					if fld.Kind() == reflect.Slice && fld.Len() > 0 {
						add("wrapper-union-bytes", p, func() { bump(fld.Index(0)) })
					} else {
						add("wrapper-union-field", p, func() { bump(fld) })
					}
				}
				return
			}
			add("pointer-target", p, func() { bump(f.Elem()) })
		case reflect.Interface:
			if f.IsNil() {
				return
			}
			e := f.Elem()
			switch {
			case e.Kind() == reflect.Ptr && !e.IsNil() && e.Elem().Kind() == reflect.Struct:
				s := e.Elem()
				if s.NumField() == 1 {
					fld := s.Field(0)
					if fld.Kind() == reflect.Slice && fld.Len() > 0 {
						add("wrapper-union-bytes", p, func() { bump(fld.Index(0)) })
					} else {
						add("wrapper-union-field", p, func() { bump(fld) })
					}
				}
			case e.Kind() == reflect.Slice && e.Len() > 0:
				// Binary inside a simple union: the bytes are reachable through the interface
				add("union-binary-bytes", p, func() { bump(e.Index(0)) })
				if e.Type().Elem().Kind() == reflect.Uint8 && f.CanSet() {
					// growing the value in place: append writes into whatever spare capacity the
					// slice was handed out with
					add("union-binary-append", p, func() {
						f.Set(reflect.Append(e, reflect.ValueOf(byte(0xEE)), reflect.ValueOf(byte(0xFF))).Convert(e.Type()))
					})
				}
			}
		case reflect.Slice:
			if f.IsNil() || f.Len() == 0 {
				return
			}
			if f.Type().Elem().Kind() == reflect.Uint8 {
				add("binary-bytes", p, func() { bump(f.Index(0)) })
				if f.CanSet() {
					add("binary-append", p, func() { f.Set(reflect.Append(f, reflect.ValueOf(byte(0xEE)), reflect.ValueOf(byte(0xFF)))) })
				}
				return
			}
			for i := 0; i < f.Len(); i++ {
				el := f.Index(i)
				if el.Kind() == reflect.Interface && !el.IsNil() {
					if ee := el.Elem(); ee.Kind() == reflect.Ptr && !ee.IsNil() && ee.Elem().Kind() == reflect.Struct && ee.Elem().NumField() == 1 {
						fld := ee.Elem().Field(0)
						add("leaflist-wrapper-union-field", fmt.Sprintf("%s[%d]", p, i), func() { bump(fld) })
						continue
					}
				}
				add("leaflist-element", fmt.Sprintf("%s[%d]", p, i), func() {
					if !bump(el) && el.Kind() == reflect.Interface && f.Len() > 1 {
						el.Set(f.Index((i + 1) % f.Len()))
					}
				})
			}
		}
	}
	walk = func(v reflect.Value, sch *yang.Entry, path string) {
		if v.Kind() != reflect.Ptr || v.IsNil() {
			return
		}
		s := v.Elem()
		t := s.Type()
		keyFields := map[int]bool{}
		if sch != nil && sch.IsList() {
			for _, kn := range model.KeyNames(sch) {
				if fi, ok := model.KeyField(t, kn); ok {
					keyFields[fi] = true
				}
			}
		}
		for i := 0; i < t.NumField(); i++ {
			sf := t.Field(i)
			kind := model.Classify(sf)
			if kind == model.FSkip {
				continue
			}
			f := s.Field(i)
			p := path + "." + sf.Name
			csch := model.Child(sch, strings.Split(sf.Tag.Get("path"), "|")[0])
			switch kind {
			case model.FLeaf, model.FLeafList:
				if keyFields[i] && f.Kind() == reflect.Interface {
					// a wrapper-union key is the very pointer used as the Go map key: scribbling on
					// it renames the entry in every map that holds it, which is a property of
					// pointer keys, not of DeepCopy/MergeStructs
					continue
				}
				walkLeaf(f, p)
				if model.IsSet(f) {
					add("struct-field-clear", p, func() { f.Set(reflect.Zero(f.Type())) })
				}
			case model.FContainer:
				if f.IsNil() {
					continue
				}
				walk(f, csch, p)
			case model.FList:
				if f.IsNil() {
					continue
				}
				if csch != nil && !pointerKeyedMap(f.Type()) {
					// also offered for a map that is empty but not nil
					add("map-entry-insert", p, func() { mk().AddMapEntry(f, csch, 4) })
				}
				if f.Len() == 0 {
					continue
				}
				ks := f.MapKeys()
				// deterministic order
				for a := 1; a < len(ks); a++ {
					for b := a; b > 0 && model.Render(ks[b]) < model.Render(ks[b-1]); b-- {
						ks[b], ks[b-1] = ks[b-1], ks[b]
					}
				}
				k0 := ks[0]
				add("map-entry-delete", p+"["+model.Render(k0)+"]", func() { f.SetMapIndex(k0, reflect.Value{}) })
				for _, k := range ks {
					walk(f.MapIndex(k), csch, p+"["+model.Render(k)+"]")
				}
			case model.FOrderedList:
				if f.IsNil() {
					continue
				}
				if csch != nil {
					// also offered for an ordered map that is empty but not nil
					add("ordered-append", p, func() { mk().AddOrderedEntry(f, csch, 4) })
				}
				st := model.OrderedInternals(f)
				if !st.OK || st.Keys.Len() == 0 {
					continue
				}
				if st.Keys.Len() > 1 {
					add("ordered-keys-swap", p, func() {
						a, b := st.Keys.Index(0), st.Keys.Index(1)
						tmp := reflect.New(a.Type()).Elem()
						tmp.Set(a)
						a.Set(b)
						b.Set(tmp)
					})
				}
				k0 := reflect.New(st.Keys.Type().Elem()).Elem()
				k0.Set(st.Keys.Index(0))
				add("ordered-valuemap-delete", p, func() { st.ValueMap.SetMapIndex(k0, reflect.Value{}) })
				for j := 0; j < st.Keys.Len(); j++ {
					if ev := st.ValueMap.MapIndex(st.Keys.Index(j)); ev.IsValid() {
						walk(ev, csch, fmt.Sprintf("%s{%d}", p, j))
					}
				}
			case model.FUnkeyedList:
				if f.IsNil() || f.Len() == 0 {
					continue
				}
				add("unkeyed-slice-element-nil", p+"[0]", func() { f.Index(0).Set(reflect.Zero(f.Type().Elem())) })
				for j := 0; j < f.Len(); j++ {
					walk(f.Index(j), csch, fmt.Sprintf("%s[%d]", p, j))
				}
			}
		}
	}
	walk(reflect.ValueOf(root), rootSch, "")
	eachAnnotationField(root, func(loc string, fld reflect.Value) {
		for i := 0; i < fld.Len(); i++ {
			if nt, ok := fld.Index(i).Interface().(*Note); ok && nt != nil {
				add("annotation-object", fmt.Sprintf("%s[%d]", loc, i), func() { nt.Text += "!" })
			}
		}
		if fld.Len() > 0 {
			add("annotation-slice-element", loc+"[0]", func() { fld.Index(0).Set(reflect.ValueOf(ygot.Annotation(&Note{Text: "replaced"}))) })
		}
	})
	return out
}

func pointerKeyedMap(t reflect.Type) bool {
	k := t.Key()
	if k.Kind() == reflect.Interface || k.Kind() == reflect.Ptr {
		return true
	}
	if k.Kind() == reflect.Struct {
		for i := 0; i < k.NumField(); i++ {
			if fk := k.Field(i).Type.Kind(); fk == reflect.Interface || fk == reflect.Ptr {
				return true
			}
		}
	}
	return false
}

// injectEmpties turns some nil keyed lists and ordered lists of a tree into empty, non-nil
// ones. YANG does not distinguish the two, and neither does the harness's walker; code that
// copies or merges trees meets both.
func injectEmpties(v reflect.Value, r *simrt.Rng) int {
	if v.Kind() != reflect.Ptr || v.IsNil() {
		return 0
	}
	s := v.Elem()
	t := s.Type()
	n := 0
	for i := 0; i < t.NumField(); i++ {
		f := s.Field(i)
		switch model.Classify(t.Field(i)) {
		case model.FContainer:
			n += injectEmpties(f, r)
		case model.FList:
			if f.IsNil() {
				if r.Intn(3) == 0 {
					f.Set(reflect.MakeMap(f.Type()))
					n++
				}
				continue
			}
			ks := f.MapKeys()
			for a := 1; a < len(ks); a++ {
				for b := a; b > 0 && model.Render(ks[b]) < model.Render(ks[b-1]); b-- {
					ks[b], ks[b-1] = ks[b-1], ks[b]
				}
			}
			for _, k := range ks {
				n += injectEmpties(f.MapIndex(k), r)
			}
		case model.FOrderedList:
			if f.IsNil() && r.Intn(3) == 0 {
				f.Set(reflect.New(f.Type().Elem()))
				n++
			}
		}
	}
	return n
}

// deepFingerprint is the model fingerprint (leaves, order, containers) of a tree.
func deepFingerprint(s *treeState, t ygot.GoStruct) string {
	return model.Walk(t, s.sch, "").Fingerprint() + "\n" + annotationFingerprint(t)
}

func c04Exec(c *Case, generate bool) (*Violation, *execStats) {
	st := newStats()
	s := newTreeState(c, st)
	ro := simrt.NewRng(simrt.Mix(c.Seed, 2))
	type side struct {
		name string
		tree ygot.GoStruct
	}
	var sides []side
	re := simrt.NewRng(simrt.Mix(c.Seed, 43))
	switch c.Target {
	case "deepcopy":
		var cp ygot.GoStruct
		var err error
		if c.Seed%2 == 1 {
			if injectEmpties(reflect.ValueOf(s.root), &re) > 0 {
				st.Probes["tree_with_empty_non_nil_lists"]++
			}
		}
		if c.Seed%3 != 0 {
			if annotate(s.root, &re, "n") > 0 {
				st.Probes["tree_with_annotations"]++
			}
		}
		if p := callSUT(func() { cp, err = ygot.DeepCopy(s.root) }); p != nil {
			return violation("C04", "panic", "C04:panic:deepcopy", "DeepCopy panicked: %v\n%s", p.v, trimStack(p.stack)), st
		}
		if err != nil {
			return violation("C04", "copy-error", "C04:deepcopy-error", "DeepCopy of a schema-conforming tree failed: %v", err), st
		}
		if d := model.DiffFlat(s.model().Flat(), model.Walk(cp, s.sch, "").Flat(), 5); len(d) > 0 {
			return violation("C04", "copy-differs", "C04:deepcopy-differs", "DeepCopy(s) is not equal to s: %v", d), st
		}
		if a, b := annotationFingerprint(s.root), annotationFingerprint(cp); a != b {
			return violation("C04", "copy-differs", "C04:deepcopy-annotations", "DeepCopy(s) does not carry the annotations of s:\n  s:    %s\n  copy: %s", clip(a, 300), clip(b, 300)), st
		}
		ms, mc := s.model(), model.Walk(cp, s.sch, "")
		for lp := range ms.Ordered {
			if fmt.Sprint(ms.ListKeys[lp]) != fmt.Sprint(mc.ListKeys[lp]) {
				return violation("C04", "copy-differs", "C04:deepcopy-order", "DeepCopy changed the order of %s: %v -> %v", lp, ms.ListKeys[lp], mc.ListKeys[lp]), st
			}
		}
		for lp, n := range ms.Unkeyed {
			if mc.Unkeyed[lp] != n {
				return violation("C04", "copy-differs", "C04:deepcopy-unkeyed", "DeepCopy changed the length of unkeyed list %s: %d -> %d", lp, n, mc.Unkeyed[lp]), st
			}
		}
		sides = []side{{"original", s.root}, {"copy", cp}}
		if c.Seed%4 == 1 {
			// DeepCopy once more: the second copy must share nothing with the first either
			// (pooled or cached intermediate objects would make successive results alias)
			var cp2 ygot.GoStruct
			if p := callSUT(func() { cp2, err = ygot.DeepCopy(s.root) }); p != nil {
				return violation("C04", "panic", "C04:panic:deepcopy", "the second DeepCopy panicked: %v\n%s", p.v, trimStack(p.stack)), st
			}
			if err != nil {
				return violation("C04", "copy-error", "C04:deepcopy-error", "the second DeepCopy of a schema-conforming tree failed: %v", err), st
			}
			if deepFingerprint(s, cp2) != deepFingerprint(s, cp) {
				return violation("C04", "copy-differs", "C04:deepcopy-second-differs", "two successive DeepCopy calls on one tree give different copies"), st
			}
			sides = append(sides, side{"second copy", cp2})
			st.Probes["second_copy"]++
		}
	case "merge", "merge-emptymaps", "merge-overwrite":
		// a and b are two projections of one tree, so they never conflict
		ra := simrt.NewRng(simrt.Mix(c.Seed, 41))
		rb := simrt.NewRng(simrt.Mix(c.Seed, 42))
		a := model.Clone(s.root).(ygot.GoStruct)
		b := model.Clone(s.root).(ygot.GoStruct)
		gen.New(&ra, c.TreeP).Mutate(reflect.ValueOf(a).Elem(), s.sch, 0, gen.EditParams{PDel: 0.3})
		gen.New(&rb, c.TreeP).Mutate(reflect.ValueOf(b).Elem(), s.sch, 0, gen.EditParams{PDel: 0.3})
		switch c.Seed % 16 {
		case 3:
			a = s.p.NewRoot() // an entirely unpopulated first input
			st.Probes["merge_with_empty_input"]++
		case 11:
			b = s.p.NewRoot()
			st.Probes["merge_with_empty_input"]++
		}
		var mopts []ygot.MergeOpt
		switch c.Target {
		case "merge-emptymaps":
			mopts = append(mopts, &ygot.MergeEmptyMaps{})
		case "merge-overwrite":
			mopts = append(mopts, &ygot.MergeOverwriteExistingFields{})
		}
		if c.Seed%3 != 0 {
			// both inputs carry annotations of their own, some on the same nodes
			if annotate(a, &re, "a")+annotate(b, &re, "b") > 0 {
				st.Probes["tree_with_annotations"]++
			}
		}
		if c.Target == "merge-emptymaps" || c.Seed%2 == 1 {
			if injectEmpties(reflect.ValueOf(a), &re)+injectEmpties(reflect.ValueOf(b), &re) > 0 {
				st.Probes["tree_with_empty_non_nil_lists"]++
			}
		}
		var m ygot.GoStruct
		var err error
		if p := callSUT(func() { m, err = ygot.MergeStructs(a, b, mopts...) }); p != nil {
			return violation("C04", "panic", "C04:panic:merge", "MergeStructs panicked: %v\n%s", p.v, trimStack(p.stack)), st
		}
		if err != nil {
			// which pairs merge is C05's business; without a result there is nothing to check here
			st.Probes["merge_refused"]++
			st.logf("merge refused: %s", addrRe.ReplaceAllString(err.Error(), "0xADDR"))
			return nil, st
		}
		sides = []side{{"a", a}, {"b", b}, {"merged", m}}
	default:
		panic("C04: unknown scenario " + c.Target)
	}
	st.logf("scenario %s pkg %s tree %s", c.Target, c.Pkg, gen.Describe(s.model()))
	nops := c.NOps
	if !generate {
		nops = len(c.Ops)
	}
	for i := 0; i < nops; i++ {
		var op Op
		if generate {
			op = Op{K: "mutate", A: map[string]string{"side": strconv.Itoa(ro.Intn(len(sides))), "loc": strconv.Itoa(ro.Intn(1 << 20))}}
			c.Ops = append(c.Ops, op)
		} else {
			op = c.Ops[i]
		}
		st.Steps++
		si, _ := strconv.Atoi(op.arg("side"))
		si %= len(sides)
		li0, _ := strconv.Atoi(op.arg("loc"))
		locs := locations(sides[si].tree, s.sch, func() *gen.G {
			rr := simrt.NewRng(simrt.Mix(c.Seed, uint64(1000+li0)))
			tp := c.TreeP
			tp.Unkeyed = false
			return gen.New(&rr, tp)
		})
		if len(locs) == 0 {
			continue
		}
		li, _ := strconv.Atoi(op.arg("loc"))
		loc := locs[li%len(locs)]
		before := make([]string, len(sides))
		for j := range sides {
			before[j] = deepFingerprint(s, sides[j].tree)
		}
		loc.Mutate()
		st.Probes["mutation:"+loc.Kind]++
		if deepFingerprint(s, sides[si].tree) != before[si] {
			st.Probes["state_changes"]++
		}
		for j := range sides {
			if j == si {
				continue
			}
			// in the merge scenario the two inputs are unrelated trees; only result <-> input pairs matter
			if strings.HasPrefix(c.Target, "merge") && sides[j].name != "merged" && sides[si].name != "merged" {
				continue
			}
			after := deepFingerprint(s, sides[j].tree)
			if after != before[j] {
				d := model.DiffFlat(flatOf(before[j]), flatOf(after), 4)
				return violation("C04", "aliasing", "C04:"+c.Target+":"+loc.Kind, "writing to %s (%s) of the %s changed the %s: %v", loc.Desc, loc.Kind, sides[si].name, sides[j].name, d), st
			}
		}
		st.logf("%d mutate %s %s %s", i, sides[si].name, loc.Kind, loc.Desc)
	}
	return nil, st
}

// flatOf turns a fingerprint back into a line -> "" map for diff display.
func flatOf(fp string) map[string]string {
	out := map[string]string{}
	start := 0
	for i := 0; i <= len(fp); i++ {
		if i == len(fp) || fp[i] == '\n' {
			if i > start {
				out[fp[start:i]] = ""
			}
			start = i + 1
		}
	}
	return out
}
