// Command hsim is the simulation harness binary. It is compiled inside a scratch,
// instrumented copy of the repository (never inside /repo) and driven by verifctl.
//
//	hsim -prop C15 -seeds 1:200 -tier quick      seeded search, JSON lines on stdout
//	hsim -prop C15 -replay file.json             re-execute one recorded case exactly
//	hsim -smoke                                  corpus / generator / walker sanity run
package main

import (
	"bufio"
	"encoding/json"
	"flag"
	"fmt"
	"os"
	"runtime"
	"runtime/debug"
	"strconv"
	"strings"
	"time"

	"verifsim/simrt"
)

// Violation is a property violation found in one run.
type Violation struct {
	Prop   string `json:"property"`
	Oracle string `json:"oracle"`
	Msg    string `json:"msg"`
	// Signature identifies the defect (call site / operation class), used for matching
	// known findings; it must not contain seeds or addresses.
	Signature string `json:"signature"`
}

// Result is what one simulated run reports (one JSON line).
type Result struct {
	Type       string         `json:"type"` // "run"
	Prop       string         `json:"property"`
	Seed       uint64         `json:"seed"`
	Pkg        string         `json:"pkg,omitempty"`
	Fp         string         `json:"fp"` // fingerprint for distinctness
	Nontrivial bool           `json:"nontrivial"`
	Steps      int64          `json:"steps"`
	Faults     map[string]int `json:"faults,omitempty"`
	Probes     map[string]int `json:"probes,omitempty"`
	LogHash    string         `json:"loghash"`
	Sample     any            `json:"sample,omitempty"`
	Violation  *Violation     `json:"violation,omitempty"`
	Case       any            `json:"case,omitempty"` // minimised replayable case when a violation was found
	Internal   string         `json:"internal,omitempty"`
	// Extra carries property-specific measurements (site coverage etc.)
	Extra map[string]any `json:"extra,omitempty"`
}

// Prop is implemented once per claimed property.
type Prop interface {
	// Run generates a case from the seed, executes it and (on violation) minimises it.
	Run(seed uint64, tier string) *Result
	// Replay executes a recorded case.
	Replay(raw json.RawMessage) *Result
}

var props = map[string]func() Prop{}

func register(name string, f func() Prop) { props[name] = f }

var (
	flagCorpus = flag.String("corpus", "", "comma-separated corpus packages to use (default: all)")
	sampleEach = flag.Int("sample-every", 0, "attach a sample to every n-th result (0: first 3 only)")
)

func main() {
	prop := flag.String("prop", "", "property id")
	seeds := flag.String("seeds", "", "lo:hi (hi exclusive)")
	tier := flag.String("tier", "quick", "quick|thorough")
	replay := flag.String("replay", "", "replay file")
	smoke := flag.Bool("smoke", false, "sanity run")
	deadline := flag.Duration("deadline", 0, "stop starting new runs after this long")
	flag.Parse()
	debug.SetGCPercent(400)
	if !simrt.RaceBuild {
		// the history properties run one goroutine; with a single P the object a sync.Pool
		// hands back does not depend on which P the goroutine happens to be on
		runtime.GOMAXPROCS(1)
	}
	out := bufio.NewWriterSize(os.Stdout, 1<<16)
	defer out.Flush()
	emit := func(v any) {
		b, err := json.Marshal(v)
		if err != nil {
			b, _ = json.Marshal(map[string]string{"type": "internal", "error": err.Error()})
		}
		out.Write(b)
		out.WriteByte('\n')
	}
	// Load every schema before the first run: schema unzipping iterates maps through the
	// seam and would otherwise consume permutation draws in whichever run happens to be
	// first in a process, making that run differ from its own replay.
	preload()
	if *smoke {
		smokeRun(emit)
		return
	}
	mk, ok := props[*prop]
	if !ok {
		fmt.Fprintf(os.Stderr, "hsim: unknown property %q\n", *prop)
		os.Exit(2)
	}
	p := mk()
	if *replay != "" {
		raw, err := os.ReadFile(*replay)
		if err != nil {
			fmt.Fprintln(os.Stderr, "hsim:", err)
			os.Exit(2)
		}
		var env struct {
			Case json.RawMessage `json:"case"`
		}
		if err := json.Unmarshal(raw, &env); err != nil || env.Case == nil {
			fmt.Fprintln(os.Stderr, "hsim: bad replay file")
			os.Exit(2)
		}
		r := safeRun(*prop, 0, func() *Result { return p.Replay(env.Case) })
		emit(r)
		return
	}
	lohi := strings.Split(*seeds, ":")
	if len(lohi) != 2 {
		fmt.Fprintln(os.Stderr, "hsim: -seeds lo:hi required")
		os.Exit(2)
	}
	lo, _ := strconv.ParseUint(lohi[0], 10, 64)
	hi, _ := strconv.ParseUint(lohi[1], 10, 64)
	start := time.Now()
	n := 0
	for s := lo; s < hi; s++ {
		if *deadline > 0 && time.Since(start) > *deadline {
			break
		}
		seed := s
		simrt.ResetStats()
		r := safeRun(*prop, seed, func() *Result { return p.Run(seed, *tier) })
		if r.Extra == nil {
			r.Extra = map[string]any{}
		}
		if _, done := r.Extra["map_events"]; !done {
			r.Extra["map_events"] = simrt.Main().MapEvents
			r.Extra["map_hash"] = fmt.Sprintf("%016x", simrt.Main().Hash)
		}
		if r.Sample != nil && !(n < 3 || (*sampleEach > 0 && n%*sampleEach == 0)) && r.Violation == nil {
			r.Sample = nil
		}
		n++
		emit(r)
		if r.Violation != nil || r.Internal != "" {
			out.Flush()
		}
	}
	emit(map[string]any{"type": "done", "runs": n, "wall_s": time.Since(start).Seconds()})
}

// safeRun converts a panic of the harness itself into an "internal" result (exit 2 at the
// driver, never a VIOLATION). Panics of the system under test are caught closer to the
// call and classified by the property.
func safeRun(prop string, seed uint64, f func() *Result) (r *Result) {
	defer func() {
		if p := recover(); p != nil {
			r = &Result{Type: "run", Prop: prop, Seed: seed, Internal: fmt.Sprintf("harness panic: %v\n%s", p, debug.Stack())}
		}
	}()
	r = f()
	r.Type = "run"
	r.Prop = prop
	if r.Seed == 0 {
		r.Seed = seed
	}
	return r
}
