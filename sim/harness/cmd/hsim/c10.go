package main

import (
	"strconv"
	"fmt"
	"reflect"
	"sort"
	"strings"

	gpb "github.com/openconfig/gnmi/proto/gnmi"
	"github.com/openconfig/goyang/pkg/yang"
	"github.com/openconfig/ygot/verifharness/corpus"
	"github.com/openconfig/ygot/verifharness/gen"
	"github.com/openconfig/ygot/verifharness/model"
	"github.com/openconfig/ygot/ytypes"
	"google.golang.org/protobuf/encoding/protojson"
	"verifsim/simrt"
)

// C10 — SetNode then GetNode returns the value set, and nothing else changes.
//
// A seeded history of SetNode(…, InitMissingElements) calls at leaf and leaf-list paths
// (every key type of the corpus on the way, existing and new list entries, scalar
// TypedValue and JSON-IETF payloads built by the harness's own encoders) runs against a
// seeded tree. Reference model: the path -> value leaf set; a successful set changes the
// target leaf and may add the key leaves of entries created on the way, nothing else.
// Failing sets (ill-typed payload, unknown path, missing key, overflow) are the injected
// faults; the property promises nothing after them, so the model is re-read from the tree.

func init() {
	register("C10", func() Prop {
		return &histProp{name: "C10", header: c10Header, exec: c10Exec}
	})
}

func c10Header(seed uint64, tier string) *Case {
	r := simrt.NewRng(simrt.Mix(seed, 10))
	p := pickPkg(&r)
	n := 1 + r.Intn(6)
	if tier == "thorough" {
		n = 1 + r.Intn(16)
	}
	tp := gen.SwarmParams(&r)
	return &Case{Prop: "C10", Pkg: p.Name, Seed: seed, Faults: seed%2 == 1, MapMode: int(simrt.MapRandom), MapSeed: simrt.Mix(seed, 3), TreeP: tp, NOps: n}
}

// leafTarget is a drawn (path, leaf field) pair.
type leafTarget struct {
	Elems     []model.Elem
	Parent    reflect.Type // struct type holding the leaf field
	Field     reflect.StructField
	Sch       *yang.Entry
	KeyClass  string // class of the deepest list key on the way ("" if none)
	NewEntry  bool   // some list entry on the way does not exist yet
	IsKeyLeaf bool
	// KeyLeaves are the key leaves (primary path -> rendered value) of every keyed entry on
	// the way, i.e. what creating those entries adds to the leaf set.
	KeyLeaves map[string]string
	// OrderedOn lists (ordered-list path, entry key) pairs on the way.
	OrderedOn [][2]string
	// Struct targets (stopAtStruct): the struct type and schema reached, and for a list
	// entry the generated prototype carrying its key leaves.
	StructT   reflect.Type
	StructSch *yang.Entry
	Proto     reflect.Value
	KeySrc    reflect.Value // entry (existing or prototype) whose key leaves name the deepest entry on the way
	InOrdered bool          // the target is inside (or is) an ordered-list entry
	LastIsEntry bool        // the last element of Elems is a keyed list entry
	Pkg         *corpus.Pkg
}

func relElems(rel string) []model.Elem {
	var out []model.Elem
	for _, e := range strings.Split(rel, "/") {
		if e != "" {
			out = append(out, model.Elem{Name: e})
		}
	}
	return out
}

// drawLeafTarget walks from the root type down to a random leaf field, choosing list
// keys from existing entries or fresh generated ones.
func drawLeafTarget(r *simrt.Rng, s *treeState) *leafTarget {
	return descend(r, s, false)
}

// descend implements drawLeafTarget; with stopAtStruct it may stop at a container or list
// entry instead (never at the root).
func descend(r *simrt.Rng, s *treeState, stopAtStruct bool) *leafTarget {
	cur := reflect.ValueOf(s.root)
	t := cur.Type().Elem()
	sch := s.sch
	lt := &leafTarget{KeyLeaves: map[string]string{}, Pkg: s.p}
	var keyNames []string // key names of the list entry we are currently in
	for depth := 0; depth < 12; depth++ {
		if stopAtStruct && len(lt.Elems) > 0 && r.Intn(3) == 0 {
			lt.StructT, lt.StructSch = t, sch
			return lt
		}
		type cand struct {
			i    int
			kind model.FieldKind
		}
		var leaves, inner []cand
		for i := 0; i < t.NumField(); i++ {
			k := model.Classify(t.Field(i))
			switch k {
			case model.FLeaf, model.FLeafList:
				leaves = append(leaves, cand{i, k})
			case model.FContainer, model.FList, model.FOrderedList:
				inner = append(inner, cand{i, k})
			}
		}
		var c cand
		switch {
		case len(inner) > 0 && (len(leaves) == 0 || r.Intn(5) < 3) && depth < 8:
			c = inner[r.Intn(len(inner))]
		case len(leaves) > 0:
			c = leaves[r.Intn(len(leaves))]
		default:
			if stopAtStruct && len(lt.Elems) > 0 {
				lt.StructT, lt.StructSch = t, sch
				return lt
			}
			return nil
		}
		if stopAtStruct && c.kind != model.FContainer && c.kind != model.FList && c.kind != model.FOrderedList {
			if len(lt.Elems) == 0 {
				continue
			}
			lt.StructT, lt.StructSch = t, sch
			return lt
		}
		sf := t.Field(c.i)
		rel := strings.Split(sf.Tag.Get("path"), "|")[0]
		csch := model.Child(sch, rel)
		switch c.kind {
		case model.FLeaf, model.FLeafList:
			lt.Elems = append(lt.Elems, relElems(rel)...)
			lt.Parent, lt.Field, lt.Sch = t, sf, csch
			for _, kn := range keyNames {
				if fi, ok := model.KeyField(t, kn); ok && fi == c.i {
					lt.IsKeyLeaf = true
				}
			}
			return lt
		case model.FContainer:
			lt.Elems = append(lt.Elems, relElems(rel)...)
			lt.LastIsEntry = false
			if cur.IsValid() && !cur.IsNil() {
				cur = cur.Elem().Field(c.i)
				if cur.IsNil() {
					cur = reflect.Value{}
				}
			}
			t, sch, keyNames = sf.Type.Elem(), csch, nil
		case model.FList, model.FOrderedList:
			var elemT, keyT reflect.Type
			var existing []reflect.Value // entry pointers
			var existingKeys []reflect.Value
			if c.kind == model.FList {
				elemT, keyT = sf.Type.Elem().Elem(), sf.Type.Key()
				if cur.IsValid() && !cur.IsNil() {
					if f := cur.Elem().Field(c.i); !f.IsNil() {
						ks := f.MapKeys()
						sort.Slice(ks, func(a, b int) bool { return model.Render(ks[a]) < model.Render(ks[b]) })
						for _, k := range ks {
							existingKeys = append(existingKeys, k)
							existing = append(existing, f.MapIndex(k))
						}
					}
				}
			} else {
				vm, _ := sf.Type.Elem().FieldByName("valueMap")
				elemT, keyT = vm.Type.Elem().Elem(), vm.Type.Key()
				if cur.IsValid() && !cur.IsNil() {
					if f := cur.Elem().Field(c.i); !f.IsNil() {
						st := model.OrderedInternals(f)
						for j := 0; st.OK && j < st.Keys.Len(); j++ {
							existingKeys = append(existingKeys, st.Keys.Index(j))
							existing = append(existing, st.ValueMap.MapIndex(st.Keys.Index(j)))
						}
					}
				}
			}
			names := model.KeyNames(csch)
			es := relElems(rel)
			var keyStrs map[string]string
			var proto reflect.Value
			if len(existing) > 0 && r.Intn(3) > 0 {
				j := r.Intn(len(existing))
				keyStrs = model.MapKeyStrings(existingKeys[j], names)
				cur = existing[j]
				proto = reflect.Value{}
				lt.KeySrc = existing[j]
			} else {
				saveP := s.g.P
				s.g.P.PLeaf, s.g.P.PContainer, s.g.P.PList = 0, 0, 0
				e, k, ok := s.g.NewEntry(elemT, keyT, csch, 0)
				s.g.P = saveP
				if !ok {
					return nil
				}
				proto = e
				keyStrs = model.MapKeyStrings(k, names)
				cur = reflect.Value{}
				lt.NewEntry = true
				for j, ek := range existingKeys {
					if model.FormatKeys(model.MapKeyStrings(ek, names)) == model.FormatKeys(keyStrs) {
						cur = existing[j]
						lt.NewEntry = false
					}
				}
			}
			es[len(es)-1].Keys = keyStrs
			lt.Elems = append(lt.Elems, es...)
			lt.Proto = proto
			if proto.IsValid() {
				lt.KeySrc = proto
				for q, v := range model.Walk(proto.Interface(), csch, model.FormatPath(lt.Elems)).Flat() {
					lt.KeyLeaves[q] = v
				}
			} else {
				nkeyed := 0
				for _, e := range lt.Elems {
					if len(e.Keys) > 0 {
						nkeyed++
					}
				}
				for q, l := range model.Walk(lt.KeySrc.Interface(), csch, model.FormatPath(lt.Elems)).Leaves {
					// only the entry's own key leaves, not those of entries nested below it
					n := 0
					for _, e := range model.ParsePath(q) {
						if len(e.Keys) > 0 {
							n++
						}
					}
					if l.Key && n == nkeyed {
						lt.KeyLeaves[q] = l.Val
					}
				}
			}
			lt.LastIsEntry = true
			if c.kind == model.FOrderedList {
				lp := model.FormatPath(append(append([]model.Elem{}, lt.Elems[:len(lt.Elems)-1]...), model.Elem{Name: lt.Elems[len(lt.Elems)-1].Name}))
				lt.OrderedOn = append(lt.OrderedOn, [2]string{lp, model.FormatKeys(keyStrs)})
				lt.InOrdered = true
			}
			lt.KeyClass = keyClassOf(keyT, names)
			t, sch, keyNames = elemT, csch, names
		}
	}
	return nil
}

func keyClassOf(kt reflect.Type, names []string) string {
	if len(names) > 1 {
		return "multikey"
	}
	switch kt.Kind() {
	case reflect.Interface:
		return "unionkey"
	case reflect.Int64:
		if _, ok := kt.MethodByName("IsYANGGoEnum"); ok {
			return "enumkey"
		}
	}
	return kt.Kind().String() + "key"
}

func yangKindName(e *yang.Entry) string {
	if e == nil || e.Type == nil {
		return "unknown"
	}
	return yang.TypeKindToName[e.Type.Kind]
}

func c10Exec(c *Case, generate bool) (*Violation, *execStats) {
	st := newStats()
	s := newTreeState(c, st)
	ro := simrt.NewRng(simrt.Mix(c.Seed, 2))
	// values for payloads come from their own stream so that replay (which does not draw) is unaffected
	rv := simrt.NewRng(simrt.Mix(c.Seed, 4))
	vg := gen.New(&rv, c.TreeP)
	vg.WideInts = true
	st.logf("pkg %s tree %s", c.Pkg, gen.Describe(s.model()))
	if c.Seed%3 == 0 {
		// equal-valued scalar leaves share one pointer (content unchanged): a writer must
		// store a new pointer, never write through the old one
		ra := simrt.NewRng(simrt.Mix(c.Seed, 6))
		if model.AliasLeafPointers(s.root, func() bool { return ra.Intn(2) == 0 }) > 0 {
			st.Probes["tree_with_shared_leaf_pointers"]++
		}
	}
	nops := c.NOps
	if !generate {
		nops = len(c.Ops)
	}
	for i := 0; i < nops; i++ {
		var op Op
		if generate {
			o, ok := c10Draw(&ro, vg, s, c.Faults)
			if !ok {
				continue
			}
			op = o
			c.Ops = append(c.Ops, op)
		} else {
			op = c.Ops[i]
		}
		st.Steps++
		if v := c10Apply(s, op); v != nil {
			st.logf("%d %s -> VIOLATION %s", i, op.K+" "+op.arg("path"), v.Oracle)
			return v, st
		}
	}
	return nil, st
}

func c10Draw(r *simrt.Rng, vg *gen.G, s *treeState, faults bool) (Op, bool) {
	var lt *leafTarget
	for try := 0; try < 8 && (lt == nil || lt.IsKeyLeaf); try++ {
		lt = drawLeafTarget(r, s)
	}
	if lt == nil || lt.IsKeyLeaf {
		return Op{}, false
	}
	parent := reflect.New(lt.Parent)
	val, ok := vg.LeafValue(parent, lt.Field.Type, lt.Sch)
	if !ok {
		return Op{}, false
	}
	path := model.FormatPath(lt.Elems)
	op := Op{K: "set", A: map[string]string{"path": path, "want": model.Render(val), "ykind": yangKindName(lt.Sch), "keyclass": lt.KeyClass, "gotype": lt.Field.Type.String()}}
	if lt.NewEntry {
		op.A["newentry"] = "1"
	}
	if lt.Field.Type.Kind() == reflect.Slice && lt.Field.Type.Name() != "Binary" {
		op.A["leaflist"] = "1"
	}
	if sp := lt.Field.Tag.Get("shadow-path"); sp != "" && r.Intn(6) == 0 {
		// address the field through its shadow path, with PreferShadowPath on both calls
		alts := strings.Split(sp, "|")
		rel := strings.Split(lt.Field.Tag.Get("path"), "|")[0]
		n := len(relElems(rel))
		es := append(append([]model.Elem{}, lt.Elems[:len(lt.Elems)-n]...), relElems(alts[0])...)
		op.A["path"] = model.FormatPath(es)
		op.A["shadow"] = "1"
		path = op.A["path"]
	}
	enc := []string{"tv", "tv", "json"}[r.Intn(3)]
	var tv *gpb.TypedValue
	switch enc {
	case "tv":
		tv, ok = model.LeafTV(val)
	case "json":
		var b []byte
		b, ok = model.LeafJSON(val)
		tv = model.JSONTV(b)
	}
	if !ok {
		return Op{}, false
	}
	if ft := lt.Field.Type; enc == "tv" && ft.Kind() == reflect.Ptr && ft.Elem().Kind() == reflect.Float64 && r.Intn(2) == 0 {
		// a decimal64 leaf may also arrive as gNMI decimal_val (digits, precision), including
		// digit strings beyond 2^53 that no float64 holds exactly: the leaf must then hold the
		// float64 nearest to digits / 10^precision
		digits := []int64{9007199254740993, -9007199254740995, 123456789012345679, 9223372036854775807, 4503599627370497, 1, -25, 1500}[r.Intn(8)]
		prec := uint32(1 + r.Intn(4))
		ds := strconv.FormatInt(digits, 10)
		neg := ""
		if ds[0] == '-' {
			neg, ds = "-", ds[1:]
		}
		for len(ds) <= int(prec) {
			ds = "0" + ds
		}
		f, perr := strconv.ParseFloat(neg+ds[:len(ds)-int(prec)]+"."+ds[len(ds)-int(prec):], 64)
		if perr == nil {
			tv = &gpb.TypedValue{Value: &gpb.TypedValue_DecimalVal{DecimalVal: &gpb.Decimal64{Digits: digits, Precision: prec}}}
			op.A["want"] = model.Render(reflect.ValueOf(f))
			op.A["decimal"] = "1"
		}
	}
	op.A["enc"] = enc
	if _, isInt := tv.GetValue().(*gpb.TypedValue_IntVal); faults && strings.HasPrefix(op.A["ykind"], "int") && (isInt || tv.GetLeaflistVal() != nil) && r.Intn(2) == 0 {
		// JSON tolerance the other way round: a uint_val for a signed leaf. Whether that is
		// accepted is ygot's choice; if it is, the leaf must hold the value that was sent
		toU := func(x *gpb.TypedValue) *gpb.TypedValue {
			if i, ok := x.GetValue().(*gpb.TypedValue_IntVal); ok && i.IntVal > 0 {
				return &gpb.TypedValue{Value: &gpb.TypedValue_UintVal{UintVal: uint64(i.IntVal)}}
			}
			return nil
		}
		if u := toU(tv); u != nil {
			tv = u
			op.K, op.A["bad"], op.A["tolerate"] = "set-bad", "uint-for-signed", "1"
		} else if ll := tv.GetLeaflistVal(); ll != nil && len(ll.Element) > 0 {
			var es []*gpb.TypedValue
			for _, e := range ll.Element {
				if u := toU(e); u != nil {
					es = append(es, u)
				}
			}
			if len(es) == len(ll.Element) {
				tv = &gpb.TypedValue{Value: &gpb.TypedValue_LeaflistVal{LeaflistVal: &gpb.ScalarArray{Element: es}}}
				op.K, op.A["bad"], op.A["tolerate"] = "set-bad", "uint-for-signed", "1"
			}
		}
	}
	if faults && op.K != "set-bad" && r.Intn(3) == 0 {
		switch r.Intn(5) {
		case 4: // JSON tolerance again, but the int_val does not fit the unsigned leaf's width
			et := lt.Field.Type
			if et.Kind() == reflect.Ptr {
				et = et.Elem()
			}
			var over int64
			switch et.Kind() {
			case reflect.Uint8:
				over = 1<<8 + int64(r.Intn(200))
			case reflect.Uint16:
				over = 1<<16 + int64(r.Intn(200))
			case reflect.Uint32:
				over = 1<<32 + int64(r.Intn(200))
			}
			if over != 0 && lt.Field.Type.Kind() == reflect.Ptr {
				tv = &gpb.TypedValue{Value: &gpb.TypedValue_IntVal{IntVal: over}}
				op.K = "set-bad"
				op.A["bad"] = "int-overflow"
				op.A["tolerate"] = "1"
				op.A["enc"] = "tv"
			}
		case 0: // ill-typed payload
			op.K = "set-bad"
			op.A["bad"] = "illtyped"
			if _, isBool := tv.GetValue().(*gpb.TypedValue_BoolVal); isBool || strings.HasPrefix(string(tv.GetJsonIetfVal()), "true") || strings.HasPrefix(string(tv.GetJsonIetfVal()), "false") {
				tv = &gpb.TypedValue{Value: &gpb.TypedValue_StringVal{StringVal: "not-a-bool"}}
			} else {
				tv = &gpb.TypedValue{Value: &gpb.TypedValue_BoolVal{BoolVal: true}}
			}
		case 1: // unknown leaf
			op.K = "set-bad"
			op.A["bad"] = "unknown-path"
			es := append([]model.Elem{}, lt.Elems[:len(lt.Elems)-1]...)
			es = append(es, model.Elem{Name: "no-such-leaf"})
			op.A["path"] = model.FormatPath(es)
		case 2: // missing key
			for i := len(lt.Elems) - 1; i >= 0; i-- {
				if len(lt.Elems[i].Keys) > 0 {
					es := append([]model.Elem{}, lt.Elems...)
					nk := map[string]string{}
					ks := model.SortedKeys(es[i].Keys)
					for _, k := range ks[1:] {
						nk[k] = es[i].Keys[k]
					}
					es[i] = model.Elem{Name: es[i].Name, Keys: nk}
					op.K = "set-bad"
					op.A["bad"] = "missing-key"
					op.A["path"] = model.FormatPath(es)
					break
				}
			}
		case 3: // JSON tolerance: a non-negative int_val for an unsigned leaf, only legal with the option
			if u, isU := tv.GetValue().(*gpb.TypedValue_UintVal); isU && u.UintVal < 1<<62 {
				tv = &gpb.TypedValue{Value: &gpb.TypedValue_IntVal{IntVal: int64(u.UintVal)}}
				op.A["tolerate"] = "1"
			}
		}
	}
	b, err := protojson.Marshal(tv)
	if err != nil {
		return Op{}, false
	}
	op.A["tv"] = string(b)
	return op, true
}

func c10Apply(s *treeState, op Op) *Violation {
	path := op.arg("path")
	pes := model.ParsePath(path)
	tv := &gpb.TypedValue{}
	if err := protojson.Unmarshal([]byte(op.arg("tv")), tv); err != nil {
		panic("C10: bad recorded TypedValue: " + err.Error())
	}
	opts := []ytypes.SetNodeOpt{&ytypes.InitMissingElements{}}
	if op.arg("tolerate") == "1" {
		opts = append(opts, &ytypes.TolerateJSONInconsistencies{})
	}
	preferShadow := op.arg("shadow") == "1"
	if preferShadow {
		opts = append(opts, &ytypes.PreferShadowPath{})
	}
	before := s.model()
	var err error
	if p := callSUT(func() { err = ytypes.SetNode(s.sch, s.root, model.ToGNMI(pes), tv, opts...) }); p != nil {
		return violation("C10", "panic", "C10:panic:"+op.K+":"+op.arg("ykind")+":"+op.arg("enc"), "SetNode(%s, %s) panicked: %v\n%s", path, model.DescribeTV(tv), p.v, trimStack(p.stack))
	}
	after := s.model()
	ctx := op.arg("ykind") + ":" + op.arg("enc") + ":" + op.arg("keyclass")
	if op.K == "set-bad" {
		s.st.Faults["bad:"+op.arg("bad")]++
		if err != nil {
			s.st.Faults["failing_set"]++
			s.st.logf("set-bad %s (%s) -> error", path, op.arg("bad"))
			return nil // nothing is promised after a failed set; the model is re-read from the tree
		}
		if op.arg("bad") == "uint-for-signed" {
			s.st.Probes["uint_for_signed_accepted"]++
			goto accepted
		}
		if op.arg("bad") == "int-overflow" {
			// the value cannot be represented in the leaf's type: whatever the tree now holds, it is not v
			return violation("C10", "accepted-unrepresentable", "C10:accepted:int-overflow:"+ctx, "SetNode(%s, %s, TolerateJSONInconsistencies) succeeded although the value does not fit the leaf's type %s", path, model.DescribeTV(tv), op.arg("gotype"))
		}
		// a "bad" set that was accepted still has to respect the frame condition
		if v := c10Frame(before, after, pes, path, "", "C10:frame-after-bad:"+op.arg("bad")+":"+ctx, preferShadow); v != nil {
			return v
		}
		s.st.logf("set-bad %s (%s) -> accepted", path, op.arg("bad"))
		return nil
	}
	if err != nil {
		s.st.Faults["failing_set"]++
		s.st.Faults["failing_set:"+op.arg("ykind")+":"+op.arg("enc")]++
		s.st.logf("set %s %s -> error %v", path, model.DescribeTV(tv), err)
		return nil
	}
accepted:
	s.st.Probes["set_ok"]++
	s.st.Probes["set_ok:"+op.arg("enc")]++
	s.st.Probes["set_ok:ykind:"+op.arg("ykind")]++
	if kc := op.arg("keyclass"); kc != "" {
		s.st.Probes["set_ok:keyclass:"+kc]++
	}
	if op.arg("newentry") == "1" {
		s.st.Probes["set_created_entry"]++
	}
	if op.arg("tolerate") == "1" {
		s.st.Probes["set_ok:json_tolerance"]++
	}
	s.st.Probes["state_changes"]++
	want := op.arg("want")
	if op.arg("leaflist") == "1" {
		s.st.Probes["set_ok:leaf-list"]++
	}
	if preferShadow {
		s.st.Probes["set_ok:shadow-path"]++
	}
	if v := c10Frame(before, after, pes, path, want, "C10:frame:"+ctx, preferShadow); v != nil {
		return v
	}
	// GetNode returns exactly one node holding the value, in the leaf's Go type
	var nodes []*ytypes.TreeNode
	var gerr error
	var gopts []ytypes.GetNodeOpt
	if preferShadow {
		gopts = append(gopts, &ytypes.PreferShadowPath{})
	}
	if p := callSUT(func() { nodes, gerr = ytypes.GetNode(s.sch, s.root, model.ToGNMI(pes), gopts...) }); p != nil {
		return violation("C10", "panic", "C10:panic:get:"+ctx, "GetNode(%s) panicked: %v", path, p.v)
	}
	if gerr != nil || len(nodes) != 1 {
		return violation("C10", "get-after-set", "C10:get:"+ctx, "after SetNode(%s, %s) succeeded GetNode returned %d nodes, err=%v", path, model.DescribeTV(tv), len(nodes), gerr)
	}
	dv := reflect.ValueOf(nodes[0].Data)
	if !dv.IsValid() || model.Render(dv) != want {
		got := "<nil>"
		if dv.IsValid() {
			got = model.Render(dv)
		}
		return violation("C10", "get-after-set", "C10:get-value:"+ctx, "after SetNode(%s, %s) GetNode holds %s, want %s", path, model.DescribeTV(tv), got, want)
	}
	if v := c10GoType(dv, op.arg("gotype")); v != "" {
		return violation("C10", "go-type", "C10:gotype:"+ctx, "after SetNode(%s, %s) GetNode returned %s: %s", path, model.DescribeTV(tv), dv.Type(), v)
	}
	// what GetNode said earlier (the node's path) must still read the same after the calls made since
	if ch := s.heldChanged(); ch != "" {
		return violation("C10", "earlier-result-changed", "C10:earlier-result-changed", "after SetNode(%s) and GetNode, %s", path, ch)
	}
	s.hold("the path of a node GetNode", nodes[0].Path)
	s.st.logf("set %s %s -> ok %s", path, model.DescribeTV(tv), want)
	return nil
}

// c10GoType checks that the data GetNode returned has the Go type of the leaf field.
func c10GoType(dv reflect.Value, fieldType string) string {
	got := dv.Type().String()
	if got == fieldType {
		return ""
	}
	// union fields are interfaces (or slices of them): any implementing type is "the leaf's Go type"
	if strings.Contains(fieldType, "_Union") {
		return ""
	}
	return fmt.Sprintf("leaf field type is %s", fieldType)
}

// c10Frame checks that a set changed only the target leaf plus the key leaves of list
// entries created on the way to it. want=="" skips the target value check.
func c10Frame(before, after *model.Model, pes []model.Elem, path, want, sig string, preferShadow ...bool) *Violation {
	ps := len(preferShadow) > 0 && preferShadow[0]
	bf, af := before.Flat(), after.Flat()
	target := ""
	for q, l := range after.Leaves {
		for _, a := range l.Addressable(ps) {
			if model.FormatPath(model.ParsePath(a)) == path {
				target = q
			}
		}
	}
	if want != "" {
		if target == "" {
			return violation("C10", "frame", sig+":target-missing", "SetNode(%s) succeeded but the leaf is not set in the tree", path)
		}
		if af[target] != want {
			return violation("C10", "frame", sig+":target-value", "SetNode(%s) succeeded but the tree holds %s, want %s", path, af[target], want)
		}
	}
	for _, q := range model.SortedKeys(bf) {
		if q == target {
			continue
		}
		if nv, ok := af[q]; !ok || nv != bf[q] {
			return violation("C10", "frame", sig+":other-changed", "SetNode(%s) changed another leaf: %s was %s, now %s", path, q, bf[q], orAbsent(nv, ok))
		}
	}
	for _, q := range model.SortedKeys(af) {
		if _, ok := bf[q]; ok || q == target {
			continue
		}
		l := after.Leaves[q]
		// allowed: key leaf of an entry on the way to the target, equal to the key in the path
		okKey := false
		if l.Key {
			qes := model.ParsePath(q)
			for n := len(qes) - 1; n >= 1 && !okKey; n-- {
				if len(qes[n-1].Keys) == 0 || n > len(pes) {
					continue
				}
				if model.FormatPath(qes[:n]) != model.FormatPath(pes[:n]) {
					continue
				}
				name := qes[len(qes)-1].Name
				if kv, has := pes[n-1].Keys[name]; has && kv == model.KeyString(l.Field) {
					okKey = true
					// where the union's first member is an unrestricted string, the key named
					// by the path is that string, whatever it looks like
					if gen.UnrestrictedStringFirst(gen.EffType(l.Schema)) && !strings.HasPrefix(af[q], "s:") {
						return violation("C10", "frame", sig+":key-member", "SetNode(%s) created key leaf %s = %s, but the union's first member (an unrestricted string) accepts the key named in the path", path, q, af[q])
					}
				}
			}
		}
		if !okKey {
			return violation("C10", "frame", sig+":other-created", "SetNode(%s) created another leaf: %s = %s", path, q, af[q])
		}
	}
	return nil
}
