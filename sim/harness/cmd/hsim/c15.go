package main

import (
	"fmt"
	"reflect"
	"strconv"
	"strings"

	"github.com/openconfig/ygot/verifharness/corpus"
	"github.com/openconfig/ygot/verifharness/gen"
	"github.com/openconfig/ygot/verifharness/model"
	"github.com/openconfig/ygot/ygot"
	"github.com/openconfig/ygot/ytypes"
	"verifsim/simrt"
)

// C15 — generated ordered maps behave as insertion-ordered unique-key maps.
//
// One simulated client issues a seeded history of calls on one generated *_OrderedMap
// (directly and through the parent's helpers); a slice-of-keys + map reference model is
// stepped in lock-step. Rejected operations (duplicate key, nil key, nil element, nil
// receiver) are the injected faults: they must leave the map unchanged.

func init() {
	register("C15", func() Prop {
		return &histProp{name: "C15", header: c15Header, exec: c15Exec}
	})
}

var listCache = map[string][]*listTarget{}

func listsOf(p *corpus.Pkg, kind model.FieldKind) []*listTarget {
	all, ok := listCache[p.Name]
	if !ok {
		all = findLists(p)
		listCache[p.Name] = all
	}
	var out []*listTarget
	for _, t := range all {
		if t.Kind == kind {
			out = append(out, t)
		}
	}
	return out
}

func corpusNames() []string {
	if *flagCorpus == "" {
		return corpus.Names()
	}
	return strings.Split(*flagCorpus, ",")
}

func pickTarget(r *simrt.Rng, kind model.FieldKind) *listTarget {
	var all []*listTarget
	for _, n := range corpusNames() {
		if corpus.Get(n).HasTag("c03only") {
			continue // a shape that only the Diff check draws (its known finding would show here too)
		}
		for _, t := range listsOf(corpus.Get(n), kind) {
			if t.pointerKeyed() {
				// wrapper-union keys are pointers: map lookups go by pointer identity, not by
				// key value, so "a map from key tuples to entries" is not what Go provides
				// there (that is why ygot offers simple unions). Excluded, and said so in the
				// evidence.
				continue
			}
			all = append(all, t)
		}
	}
	if len(all) == 0 {
		panic("no list targets of the requested kind in the corpus")
	}
	return all[r.Intn(len(all))]
}

func findTarget(name string, kind model.FieldKind) *listTarget {
	for _, n := range corpus.Names() {
		for _, t := range listsOf(corpus.Get(n), kind) {
			if t.String() == name {
				return t
			}
		}
	}
	panic("unknown target " + name)
}

func c15Header(seed uint64, tier string) *Case {
	r := simrt.NewRng(simrt.Mix(seed, 15))
	t := pickTarget(&r, model.FOrderedList)
	n := 3 + r.Intn(10)
	if tier == "thorough" {
		n = 3 + r.Intn(28)
	}
	return &Case{Prop: "C15", Pkg: t.Pkg.Name, Seed: seed, Target: t.String(), Faults: seed%2 == 1,
		MapMode: int(simrt.MapRandom), MapSeed: simrt.Mix(seed, 3), TreeP: gen.DefaultParams(), NOps: n}
}

type c15State struct {
	t      *listTarget
	root   reflect.Value
	parent reflect.Value
	pool   []poolKey
	// results of the previous Keys() / Values() observation, kept to see that they stay put
	heldKeys, heldValues reflect.Value
	heldKeysWere         []string
	heldValuesWere       []uintptr
	order  []int                 // model: pool indices in insertion order
	vals   map[int]reflect.Value // model: pool index -> element pointer
	st     *execStats
	// a replica that follows the tree only through DiffWithAtomic notifications, synced at
	// "sync-diff" operations (i.e. less often than every call)
	synced  ygot.GoStruct
	replica ygot.GoStruct
	// a second replica that is brought up to date by unmarshalling the tree's RFC 7951
	// JSON into it again and again (never into a fresh struct)
	jreplica ygot.GoStruct
}

func (s *c15State) om() reflect.Value { return s.parent.Elem().Field(s.t.Field) }

func (s *c15State) parentMethod(prefix, suffix string) reflect.Value {
	return s.parent.MethodByName(prefix + s.t.FieldName + suffix)
}

func ptrEq(a, b reflect.Value) bool {
	if !a.IsValid() || !b.IsValid() {
		return a.IsValid() == b.IsValid()
	}
	if a.Kind() == reflect.Ptr && b.Kind() == reflect.Ptr {
		return a.Pointer() == b.Pointer()
	}
	return false
}

func (s *c15State) keyStr(k reflect.Value) string {
	return model.FormatKeys(model.MapKeyStrings(k, model.KeyNames(s.t.ListSch)))
}

// check compares the real map with the model through the public API and the internals.
func (s *c15State) check(after string) *Violation {
	om := s.om()
	sig := "C15:" + s.t.Kind2() + ":state"
	if om.IsNil() {
		s.heldKeys, s.heldValues = reflect.Value{}, reflect.Value{}
		if len(s.order) != 0 {
			return violation("C15", "model-mismatch", sig, "after %s: ordered map field is nil but the model holds %d entries", after, len(s.order))
		}
		return nil
	}
	var keys, values reflect.Value
	var n int
	if p := callSUT(func() {
		keys = om.MethodByName("Keys").Call(nil)[0]
		values = om.MethodByName("Values").Call(nil)[0]
		n = int(om.MethodByName("Len").Call(nil)[0].Int())
	}); p != nil {
		return violation("C15", "panic", "C15:panic:observe", "after %s: Keys/Values/Len panicked: %v", after, p.v)
	}
	// what Keys() and Values() returned after the previous call is still in our hands: a
	// copy does not change when later operations run (a result that aliases a buffer the
	// map keeps reusing would)
	if s.heldKeys.IsValid() {
		now := make([]string, s.heldKeys.Len())
		for i := range now {
			now[i] = s.keyStr(s.heldKeys.Index(i))
		}
		if strings.Join(now, " ") != strings.Join(s.heldKeysWere, " ") {
			return violation("C15", "model-mismatch", "C15:"+s.t.Kind2()+":keys-retained", "after %s: the slice Keys() returned earlier changed from %v to %v", after, s.heldKeysWere, now)
		}
		for i := 0; i < s.heldValues.Len() && i < len(s.heldValuesWere); i++ {
			if s.heldValues.Index(i).Pointer() != s.heldValuesWere[i] {
				return violation("C15", "model-mismatch", "C15:"+s.t.Kind2()+":values-retained", "after %s: element %d of the slice Values() returned earlier changed", after, i)
			}
		}
	}
	want := make([]string, len(s.order))
	for i, pi := range s.order {
		want[i] = s.pool[pi].Str
	}
	got := make([]string, keys.Len())
	for i := range got {
		got[i] = s.keyStr(keys.Index(i))
	}
	s.heldKeys, s.heldKeysWere = keys, got
	s.heldValues, s.heldValuesWere = values, nil
	for i := 0; i < values.Len(); i++ {
		s.heldValuesWere = append(s.heldValuesWere, values.Index(i).Pointer())
	}
	if strings.Join(got, " ") != strings.Join(want, " ") {
		return violation("C15", "model-mismatch", "C15:"+s.t.Kind2()+":keys", "after %s: Keys() = %v, insertion-ordered model = %v", after, got, want)
	}
	if n != len(s.order) {
		return violation("C15", "model-mismatch", "C15:"+s.t.Kind2()+":len", "after %s: Len() = %d, model = %d", after, n, len(s.order))
	}
	if values.Len() != len(s.order) {
		return violation("C15", "model-mismatch", "C15:"+s.t.Kind2()+":values", "after %s: Values() has %d elements, model %d", after, values.Len(), len(s.order))
	}
	for i, pi := range s.order {
		if !ptrEq(values.Index(i), s.vals[pi]) {
			return violation("C15", "model-mismatch", "C15:"+s.t.Kind2()+":values", "after %s: Values()[%d] is not the element stored for key %s", after, i, s.pool[pi].Str)
		}
	}
	get := om.MethodByName("Get")
	for pi, pk := range s.pool {
		var g reflect.Value
		if p := callSUT(func() { g = get.Call(callArgs(get, []reflect.Value{pk.Key}))[0] }); p != nil {
			return violation("C15", "panic", "C15:panic:get", "after %s: Get(%s) panicked: %v", after, pk.Str, p.v)
		}
		want, present := s.vals[pi]
		if present && !ptrEq(g, want) {
			return violation("C15", "model-mismatch", "C15:"+s.t.Kind2()+":get", "after %s: Get(%s) does not return the stored element", after, pk.Str)
		}
		if !present && !g.IsNil() {
			return violation("C15", "model-mismatch", "C15:"+s.t.Kind2()+":get", "after %s: Get(%s) returns an element for an absent key", after, pk.Str)
		}
	}
	// internals: keys and valueMap agree, every element's key leaves equal its key
	m := model.Walk(s.root.Interface(), s.t.Pkg.Schema().RootSchema(), "")
	if len(m.Problems) > 0 {
		return violation("C15", "invariant", "C15:"+s.t.Kind2()+":internal", "after %s: %s", after, strings.Join(m.Problems, "; "))
	}
	return nil
}

func (t *listTarget) pointerKeyed() bool {
	if !t.Pkg.HasTag("wrapperunion") {
		return false
	}
	kt := t.KeyType
	if kt.Kind() == reflect.Interface {
		return true
	}
	if kt.Kind() == reflect.Struct {
		for i := 0; i < kt.NumField(); i++ {
			if kt.Field(i).Type.Kind() == reflect.Interface {
				return true
			}
		}
	}
	return false
}

func (t *listTarget) nestedInOrdered() bool {
	for _, st := range t.Steps {
		if st.Kind == model.FOrderedList {
			return true
		}
	}
	return false
}

func (t *listTarget) Kind2() string {
	if t.unionKeyed() {
		return "unionkey-ordered"
	}
	if len(model.KeyNames(t.ListSch)) > 1 {
		return "multikey"
	}
	return "singlekey"
}

// unionKeyed reports whether a key (or a part of a multi-part key) is a union.
func (t *listTarget) unionKeyed() bool {
	kt := t.KeyType
	if kt.Kind() == reflect.Interface {
		return true
	}
	if kt.Kind() == reflect.Struct {
		for i := 0; i < kt.NumField(); i++ {
			if kt.Field(i).Type.Kind() == reflect.Interface {
				return true
			}
		}
	}
	return false
}

func (s *c15State) listPath(m *model.Model) string {
	for p, v := range m.Containers {
		if v.Kind() == reflect.Ptr && v.Pointer() == s.parent.Pointer() {
			rel := strings.Split(s.t.Parent.Field(s.t.Field).Tag.Get("path"), "|")[0]
			if p == "/" {
				return "/" + rel
			}
			return p + "/" + rel
		}
	}
	return ""
}

func has(order []int, i int) bool {
	for _, x := range order {
		if x == i {
			return true
		}
	}
	return false
}

func without(order []int, i int) []int {
	var out []int
	for _, x := range order {
		if x != i {
			out = append(out, x)
		}
	}
	return out
}

var c15OpsLegal = []string{"appendnew", "appendnew", "append", "append", "delete", "delete", "get", "keys", "values", "len", "getorcreate", "rt-json", "rt-gnmi", "rt-copy", "sync-diff", "sync-diff", "move-to-end", "move-to-end", "sync-json"}
var c15OpsFault = []string{"appendnew", "append", "append-nilkey", "append-nilelem", "delete", "nilrecv", "appendnew", "append"}

func c15Exec(c *Case, generate bool) (*Violation, *execStats) {
	st := newStats()
	t := findTarget(c.Target, model.FOrderedList)
	rs := simrt.NewRng(simrt.Mix(c.Seed, 1))
	ro := simrt.NewRng(simrt.Mix(c.Seed, 2))
	simrt.Configure(simrt.MapMode(c.MapMode), c.MapSeed, nil)
	g := gen.New(&rs, c.TreeP)
	s := &c15State{t: t, vals: map[int]reflect.Value{}, st: st}
	s.root, s.parent = t.instantiate(g)
	s.pool = t.keyPool(g, 3+int(c.Seed%4))
	if len(s.pool) < 2 {
		panic("C15: key pool too small for " + t.String())
	}
	s.synced = model.Clone(s.root.Interface()).(ygot.GoStruct)
	s.replica = model.Clone(s.root.Interface()).(ygot.GoStruct)
	s.jreplica = model.Clone(s.root.Interface()).(ygot.GoStruct)
	st.logf("target %s pool %v", t, poolStrs(s.pool))
	nops := c.NOps
	if !generate {
		nops = len(c.Ops)
	}
	for i := 0; i < nops; i++ {
		var op Op
		if generate {
			op = c15Draw(&ro, s, c.Faults)
			c.Ops = append(c.Ops, op)
		} else {
			op = c.Ops[i]
		}
		st.Steps++
		if v := c15Apply(s, op); v != nil {
			st.logf("%d %s -> VIOLATION %s", i, op, v.Oracle)
			return v, st
		}
		if v := s.check(op.String()); v != nil {
			st.logf("%d %s -> VIOLATION %s", i, op, v.Oracle)
			return v, st
		}
		st.logf("%d %s -> order %v", i, op, s.order)
	}
	// every history ends with a sync of the replica, so that a reordering which happened
	// since the last sync (e.g. delete then re-append) has to come through the diff
	if !t.nestedInOrdered() && !t.unionKeyed() {
		if v := c15SyncDiff(s); v != nil {
			st.logf("final sync-diff -> VIOLATION %s", v.Oracle)
			return v, st
		}
	}
	return nil, st
}

func poolStrs(p []poolKey) []string {
	out := make([]string, len(p))
	for i, k := range p {
		out[i] = k.Str
	}
	return out
}

func c15Draw(r *simrt.Rng, s *c15State, faults bool) Op {
	kinds := c15OpsLegal
	if faults && r.Intn(2) == 0 {
		kinds = c15OpsFault
	}
	k := kinds[r.Intn(len(kinds))]
	if s.t.unionKeyed() && (k == "rt-gnmi" || k == "sync-diff") {
		// known finding (pinned case C15-unionkey-ordered-gnmi): ygot cannot address an ordered
		// list keyed by a union through gNMI paths at all; the history-based search does not
		// spend its runs on re-finding that and exercises the map operations instead
		k = "rt-json"
	}
	op := Op{K: k, A: map[string]string{}}
	pi := r.Intn(len(s.pool))
	via := []string{"map", "parent"}[r.Intn(2)]
	switch k {
	case "appendnew", "append":
		if !faults {
			// fault-free configuration: only keys that are absent
			var absent []int
			for i := range s.pool {
				if !has(s.order, i) {
					absent = append(absent, i)
				}
			}
			if len(absent) == 0 {
				return Op{K: "delete", A: map[string]string{"key": strconv.Itoa(pi), "via": via}}
			}
			pi = absent[r.Intn(len(absent))]
		}
		op.A["key"] = strconv.Itoa(pi)
		op.A["via"] = via
	case "append-nilkey":
		op.A["key"] = strconv.Itoa(pi)
		op.A["via"] = via
		op.A["which"] = strconv.Itoa(r.Intn(4))
	case "append-nilelem":
		op.A["via"] = via
	case "delete", "get":
		op.A["key"] = strconv.Itoa(pi)
		op.A["via"] = via
	case "move-to-end":
		// delete a present key that is not last and append it again
		if len(s.order) < 2 {
			return Op{K: "appendnew", A: map[string]string{"key": strconv.Itoa(pi), "via": via}}
		}
		op.A["key"] = strconv.Itoa(s.order[r.Intn(len(s.order)-1)])
		op.A["via"] = via
	}
	if len(op.A) == 0 {
		op.A = nil
	}
	return op
}

func (s *c15State) newElem(pi int) reflect.Value {
	return reflect.ValueOf(model.Clone(s.pool[pi].Proto.Interface()))
}

func c15Apply(s *c15State, op Op) *Violation {
	t := s.t
	sigp := "C15:" + t.Kind2() + ":"
	pi := 0
	if ks := op.arg("key"); ks != "" {
		pi, _ = strconv.Atoi(ks)
		if pi >= len(s.pool) {
			pi = pi % len(s.pool)
		}
	}
	viaParent := op.arg("via") == "parent"
	omNil := s.om().IsNil()
	present := has(s.order, pi)
	switch op.K {
	case "getorcreate":
		var a, b reflect.Value
		if p := callSUT(func() {
			a = s.parentMethod("GetOrCreate", "Map").Call(nil)[0]
			b = s.parentMethod("GetOrCreate", "Map").Call(nil)[0]
		}); p != nil {
			return violation("C15", "panic", "C15:panic:getorcreate", "GetOrCreate…Map panicked: %v", p.v)
		}
		if a.IsNil() || a.Pointer() != b.Pointer() || s.om().IsNil() || s.om().Pointer() != a.Pointer() {
			return violation("C15", "model-mismatch", sigp+"getorcreate", "GetOrCreate%sMap is not idempotent or does not install the map", t.FieldName)
		}
		if omNil {
			s.st.Probes["map_created_by_getorcreate"]++
		}
	case "appendnew":
		var m reflect.Value
		if viaParent {
			m = s.parentMethod("AppendNew", "")
		} else {
			m = s.om().MethodByName("AppendNew")
		}
		var out []reflect.Value
		if p := callSUT(func() { out = m.Call(callArgs(m, keyArgs(s.pool[pi].Key))) }); p != nil {
			return violation("C15", "panic", "C15:panic:appendnew", "AppendNew(%s) panicked: %v", s.pool[pi].Str, p.v)
		}
		err := errOf(out[1])
		switch {
		case !viaParent && omNil:
			s.st.Faults["nil_receiver"]++
			if err == nil {
				return violation("C15", "model-mismatch", sigp+"appendnew-nilrecv", "AppendNew on a nil ordered map succeeded")
			}
		case present:
			s.st.Faults["duplicate_key"]++
			if err == nil {
				return violation("C15", "model-mismatch", sigp+"appendnew-dup", "AppendNew(%s) accepted a duplicate key", s.pool[pi].Str)
			}
		default:
			if err != nil {
				return violation("C15", "model-mismatch", sigp+"appendnew", "AppendNew(%s) failed for a fresh key: %v", s.pool[pi].Str, err)
			}
			if out[0].IsNil() {
				return violation("C15", "model-mismatch", sigp+"appendnew", "AppendNew(%s) returned nil element", s.pool[pi].Str)
			}
			s.order = append(s.order, pi)
			s.vals[pi] = out[0]
			s.st.Probes["state_changes"]++
			if len(s.order) >= 2 {
				s.st.Probes["two_or_more_entries"]++
			}
		}
	case "append", "append-nilkey", "append-nilelem":
		var m reflect.Value
		if viaParent {
			m = s.parentMethod("Append", "")
		} else {
			m = s.om().MethodByName("Append")
		}
		var el reflect.Value
		switch op.K {
		case "append":
			el = s.newElem(pi)
		case "append-nilelem":
			el = reflect.Zero(reflect.PtrTo(t.ElemType))
		case "append-nilkey":
			el = s.newElem(pi)
			names := model.KeyNames(t.ListSch)
			w, _ := strconv.Atoi(op.arg("which"))
			// nil out one pointer-typed key leaf; keys that are not pointers (enum, union)
			// have no nil value that Append is documented to reject
			var ptrKeys []int
			for _, n := range names {
				if fi, ok := model.KeyField(t.ElemType, n); ok && t.ElemType.Field(fi).Type.Kind() == reflect.Ptr {
					ptrKeys = append(ptrKeys, fi)
				}
			}
			if len(ptrKeys) == 0 {
				return nil
			}
			fi := ptrKeys[w%len(ptrKeys)]
			el.Elem().Field(fi).Set(reflect.Zero(t.ElemType.Field(fi).Type))
		}
		var out []reflect.Value
		if p := callSUT(func() { out = m.Call([]reflect.Value{el}) }); p != nil {
			return violation("C15", "panic", "C15:panic:"+op.K, "%s panicked: %v", op, p.v)
		}
		err := errOf(out[0])
		switch {
		case !viaParent && omNil:
			s.st.Faults["nil_receiver"]++
			if err == nil {
				return violation("C15", "model-mismatch", sigp+"append-nilrecv", "Append on a nil ordered map succeeded")
			}
		case op.K == "append-nilelem":
			s.st.Faults["nil_element"]++
			if err == nil {
				return violation("C15", "model-mismatch", sigp+"append-nilelem", "Append(nil) succeeded")
			}
		case op.K == "append-nilkey":
			s.st.Faults["nil_key"]++
			if err == nil {
				return violation("C15", "model-mismatch", sigp+"append-nilkey", "Append of an element with a nil key leaf succeeded")
			}
		case present:
			s.st.Faults["duplicate_key"]++
			if err == nil {
				return violation("C15", "model-mismatch", sigp+"append-dup", "Append(%s) accepted a duplicate key", s.pool[pi].Str)
			}
		default:
			if err != nil {
				return violation("C15", "model-mismatch", sigp+"append", "Append(%s) failed for a fresh key: %v", s.pool[pi].Str, err)
			}
			s.order = append(s.order, pi)
			s.vals[pi] = el
			s.st.Probes["state_changes"]++
			if len(s.order) >= 2 {
				s.st.Probes["two_or_more_entries"]++
			}
		}
	case "delete":
		var m reflect.Value
		if viaParent {
			m = s.parentMethod("Delete", "")
		} else {
			m = s.om().MethodByName("Delete")
		}
		var out []reflect.Value
		if p := callSUT(func() { out = m.Call(callArgs(m, keyArgsFor(m, s.pool[pi].Key))) }); p != nil {
			return violation("C15", "panic", "C15:panic:delete", "Delete(%s) panicked: %v", s.pool[pi].Str, p.v)
		}
		if out[0].Bool() != present {
			return violation("C15", "model-mismatch", sigp+"delete", "Delete(%s) returned %v, key present in model: %v", s.pool[pi].Str, out[0].Bool(), present)
		}
		if present {
			if s.order[len(s.order)-1] != pi {
				s.st.Probes["delete_not_last"]++
			}
			s.order = without(s.order, pi)
			delete(s.vals, pi)
			s.st.Probes["state_changes"]++
		} else {
			s.st.Faults["delete_absent"]++
		}
	case "get":
		if !viaParent {
			return nil // Get on the map itself is exercised by check() after every step
		}
		m := s.parentMethod("Get", "")
		var out []reflect.Value
		if p := callSUT(func() { out = m.Call(callArgs(m, keyArgsFor(m, s.pool[pi].Key))) }); p != nil {
			return violation("C15", "panic", "C15:panic:get", "Get%s(%s) panicked: %v", t.FieldName, s.pool[pi].Str, p.v)
		}
		if present != !out[0].IsNil() || (present && !ptrEq(out[0], s.vals[pi])) {
			return violation("C15", "model-mismatch", sigp+"parentget", "Get%s(%s) disagrees with the model (present=%v)", t.FieldName, s.pool[pi].Str, present)
		}
	case "keys":
		if omNil {
			return nil
		}
		var ks reflect.Value
		if p := callSUT(func() { ks = s.om().MethodByName("Keys").Call(nil)[0] }); p != nil {
			return violation("C15", "panic", "C15:panic:keys", "Keys panicked: %v", p.v)
		}
		// mutate what was returned: the map must not notice
		if ks.Len() > 0 {
			other := s.pool[(s.order[0]+1)%len(s.pool)].Key
			dst := ks.Index(0)
			v := other
			for v.Kind() == reflect.Interface && dst.Kind() != reflect.Interface {
				v = v.Elem()
			}
			dst.Set(v)
			s.st.Probes["returned_keys_mutated"]++
		}
	case "values":
		if omNil {
			return nil
		}
		var vs reflect.Value
		if p := callSUT(func() { vs = s.om().MethodByName("Values").Call(nil)[0] }); p != nil {
			return violation("C15", "panic", "C15:panic:values", "Values panicked: %v", p.v)
		}
		if vs.Len() > 0 {
			vs.Index(0).Set(reflect.Zero(vs.Type().Elem()))
			s.st.Probes["returned_values_mutated"]++
		}
	case "len":
	case "nilrecv":
		z := reflect.Zero(s.om().Type())
		var k, v reflect.Value
		var l int64
		var del bool
		var g reflect.Value
		if p := callSUT(func() {
			k = z.MethodByName("Keys").Call(nil)[0]
			v = z.MethodByName("Values").Call(nil)[0]
			l = z.MethodByName("Len").Call(nil)[0].Int()
			gm := z.MethodByName("Get")
			g = gm.Call(callArgs(gm, []reflect.Value{s.pool[pi].Key}))[0]
			dm := z.MethodByName("Delete")
			del = dm.Call(callArgs(dm, []reflect.Value{s.pool[pi].Key}))[0].Bool()
		}); p != nil {
			return violation("C15", "panic", "C15:panic:nilrecv", "method on nil ordered map panicked: %v", p.v)
		}
		s.st.Faults["nil_receiver"]++
		if k.Len() != 0 || v.Len() != 0 || l != 0 || !g.IsNil() || del {
			return violation("C15", "model-mismatch", sigp+"nilrecv", "nil ordered map is not empty: keys=%d values=%d len=%d", k.Len(), v.Len(), l)
		}
	case "move-to-end":
		if !present {
			return nil
		}
		if v := c15Apply(s, Op{K: "delete", A: map[string]string{"key": op.arg("key"), "via": op.arg("via")}}); v != nil {
			return v
		}
		if v := c15Apply(s, Op{K: "appendnew", A: map[string]string{"key": op.arg("key"), "via": op.arg("via")}}); v != nil {
			return v
		}
		s.st.Probes["moved_to_end"]++
	case "sync-diff":
		if t.nestedInOrdered() {
			return nil
		}
		return c15SyncDiff(s)
	case "sync-json":
		return c15SyncJSON(s)
	case "rt-json", "rt-gnmi", "rt-copy":
		if op.K == "rt-gnmi" && t.nestedInOrdered() {
			// ygot documents nested ordered lists as unsupported by TogNMINotifications
			return nil
		}
		return c15RoundTrip(s, op.K)
	default:
		panic("C15: unknown op " + op.K)
	}
	return nil
}

// keyArgsFor gives the arguments for helpers taking the key: the ordered map's own
// Get/Delete take the key (struct) itself, the parent's helpers take one argument per leaf.
func keyArgsFor(m reflect.Value, k reflect.Value) []reflect.Value {
	if m.Type().NumIn() == 1 {
		kk := k
		for kk.Kind() == reflect.Interface {
			kk = kk.Elem()
		}
		if kk.Type() == m.Type().In(0) {
			return []reflect.Value{kk}
		}
		return []reflect.Value{k}
	}
	return keyArgs(k)
}

func c15RoundTrip(s *c15State, kind string) *Violation {
	p := s.t.Pkg
	sch := p.Schema().RootSchema()
	before := model.Walk(s.root.Interface(), sch, "")
	lp := s.listPath(before)
	var after *model.Model
	sig := "C15:" + s.t.Kind2() + ":" + kind
	switch kind {
	case "rt-json":
		var js string
		var err error
		if pe := callSUT(func() {
			js, err = ygot.EmitJSON(s.root.Interface().(ygot.GoStruct), &ygot.EmitJSONConfig{Format: ygot.RFC7951, SkipValidation: true, RFC7951Config: &ygot.RFC7951JSONConfig{AppendModuleName: true}})
		}); pe != nil {
			return violation("C15", "panic", "C15:panic:"+kind, "EmitJSON panicked: %v", pe.v)
		}
		if err != nil {
			return violation("C15", "roundtrip", sig, "EmitJSON failed: %v", err)
		}
		nr := p.NewRoot()
		if pe := callSUT(func() { err = p.Unmarshal([]byte(js), nr) }); pe != nil {
			return violation("C15", "panic", "C15:panic:"+kind, "Unmarshal panicked: %v", pe.v)
		}
		if err != nil {
			return violation("C15", "roundtrip", sig, "Unmarshal of emitted JSON failed: %v", err)
		}
		after = model.Walk(nr, sch, "")
	case "rt-gnmi":
		var err error
		var nr ygot.GoStruct
		if pe := callSUT(func() {
			ns, e := ygot.TogNMINotifications(s.root.Interface().(ygot.GoStruct), 1, ygot.GNMINotificationsConfig{UsePathElem: true})
			if e != nil {
				err = e
				return
			}
			fs := p.FreshSchema()
			err = ytypes.UnmarshalNotifications(fs, ns)
			nr = fs.Root
		}); pe != nil {
			return violation("C15", "panic", "C15:panic:"+kind, "gNMI round trip panicked: %v", pe.v)
		}
		if err != nil {
			return violation("C15", "roundtrip", sig, "gNMI round trip failed: %v", err)
		}
		after = model.Walk(nr, sch, "")
	case "rt-copy":
		var cp ygot.GoStruct
		var err error
		if pe := callSUT(func() { cp, err = ygot.DeepCopy(s.root.Interface().(ygot.GoStruct)) }); pe != nil {
			return violation("C15", "panic", "C15:panic:"+kind, "DeepCopy panicked: %v", pe.v)
		}
		if err != nil {
			return violation("C15", "roundtrip", sig, "DeepCopy failed: %v", err)
		}
		after = model.Walk(cp, sch, "")
	}
	if len(s.order) >= 2 {
		s.st.Probes["roundtrip_with_two_or_more"]++
	}
	bo, ao := before.ListKeys[lp], after.ListKeys[lp]
	if fmt.Sprint(bo) != fmt.Sprint(ao) {
		return violation("C15", "order-lost", sig, "%s: order at %s was %v, after the round trip %v", kind, lp, bo, ao)
	}
	if d := model.DiffFlat(before.Flat(), after.Flat(), 5); len(d) > 0 {
		return violation("C15", "roundtrip", sig, "%s changed the leaf set: %v", kind, d)
	}
	return nil
}

// c15SyncDiff brings the replica up to date with the notifications DiffWithAtomic produces
// for (last synced state, current state) and compares the order of the list.
func c15SyncDiff(s *c15State) *Violation {
	p := s.t.Pkg
	sch := p.Schema().RootSchema()
	sig := "C15:" + s.t.Kind2() + ":sync-diff"
	cur := s.root.Interface().(ygot.GoStruct)
	var err error
	if pe := callSUT(func() {
		ns, e := ygot.DiffWithAtomic(s.synced, cur)
		if e != nil {
			err = e
			return
		}
		schema := &ytypes.Schema{Root: s.replica, SchemaTree: p.Schema().SchemaTree, Unmarshal: p.Unmarshal}
		err = ytypes.UnmarshalNotifications(schema, ns)
		s.replica = schema.Root.(ygot.GoStruct)
	}); pe != nil {
		return violation("C15", "panic", "C15:panic:sync-diff", "DiffWithAtomic / UnmarshalNotifications panicked: %v", pe.v)
	}
	if err != nil {
		return violation("C15", "roundtrip", sig, "syncing a replica with DiffWithAtomic failed: %v", err)
	}
	want := model.Walk(cur, sch, "")
	got := model.Walk(s.replica, sch, "")
	lp := s.listPath(want)
	if fmt.Sprint(want.ListKeys[lp]) != fmt.Sprint(got.ListKeys[lp]) {
		return violation("C15", "order-lost", sig, "after syncing with DiffWithAtomic the replica's %s is %v, the list is %v", lp, got.ListKeys[lp], want.ListKeys[lp])
	}
	if d := model.DiffFlat(want.Flat(), got.Flat(), 5); len(d) > 0 {
		return violation("C15", "roundtrip", sig, "after syncing with DiffWithAtomic the replica differs: %v", d)
	}
	s.synced = model.Clone(cur).(ygot.GoStruct)
	s.st.Probes["replica_synced_by_diff"]++
	return nil
}

// c15SyncJSON unmarshals the tree's JSON into a replica that already holds an older state
// of the list. ygot may refuse that (it expects ordered lists to be unmarshalled as a
// whole); what it must not do is accept the document and leave the list in another order
// than the document's.
func c15SyncJSON(s *c15State) *Violation {
	p := s.t.Pkg
	sch := p.Schema().RootSchema()
	sig := "C15:" + s.t.Kind2() + ":sync-json"
	cur := s.root.Interface().(ygot.GoStruct)
	var js string
	var err error
	if pe := callSUT(func() {
		js, err = ygot.EmitJSON(cur, &ygot.EmitJSONConfig{Format: ygot.RFC7951, SkipValidation: true})
	}); pe != nil {
		return violation("C15", "panic", "C15:panic:sync-json", "EmitJSON panicked: %v", pe.v)
	}
	if err != nil {
		return violation("C15", "roundtrip", sig, "EmitJSON failed: %v", err)
	}
	if pe := callSUT(func() { err = p.Unmarshal([]byte(js), s.jreplica) }); pe != nil {
		return violation("C15", "panic", "C15:panic:sync-json", "Unmarshal into a populated tree panicked: %v", pe.v)
	}
	if err != nil {
		// refused: start the replica afresh from the document
		s.st.Faults["json_merge_into_existing_list_refused"]++
		nr := p.NewRoot()
		if e2 := p.Unmarshal([]byte(js), nr); e2 != nil {
			return violation("C15", "roundtrip", sig, "Unmarshal of emitted JSON into a fresh tree failed: %v", e2)
		}
		s.jreplica = nr
		return nil
	}
	want := model.Walk(cur, sch, "")
	got := model.Walk(s.jreplica, sch, "")
	lp := s.listPath(want)
	inDoc := map[string]bool{}
	for _, k := range want.ListKeys[lp] {
		inDoc[k] = true
	}
	var filtered []string
	for _, k := range got.ListKeys[lp] {
		if inDoc[k] {
			filtered = append(filtered, k)
		}
	}
	if fmt.Sprint(filtered) != fmt.Sprint(want.ListKeys[lp]) {
		return violation("C15", "order-lost", sig, "Unmarshal accepted a document listing %s as %v but the tree now has them as %v", lp, want.ListKeys[lp], got.ListKeys[lp])
	}
	s.st.Probes["json_merged_into_existing"]++
	return nil
}
