package main

import (
	"encoding/json"
	"flag"
	"fmt"
	"os"
	"reflect"
	"regexp"
	"sort"
	"strconv"
	"strings"

	gpb "github.com/openconfig/gnmi/proto/gnmi"
	"github.com/openconfig/goyang/pkg/yang"
	"github.com/openconfig/ygot/verifharness/corpus"
	"github.com/openconfig/ygot/verifharness/gen"
	"github.com/openconfig/ygot/verifharness/model"
	"github.com/openconfig/ygot/ygot"
	"github.com/openconfig/ygot/ytypes"
	"google.golang.org/protobuf/encoding/protojson"
	"google.golang.org/protobuf/encoding/prototext"
	"google.golang.org/protobuf/proto"
	"verifsim/simrt"
)

// C21 — concurrent use is race-free and schedule-independent.
//
// K caller tasks (real goroutines, exactly one runnable at a time, every scheduling
// decision drawn from the seed) run read-only operations on one shared tree, and/or
// Unmarshal / SetNode / UnmarshalSetRequest histories into private trees that share one
// schema and one set of input messages. Each task's list is first executed alone on equal
// private state (reference results), then all lists run interleaved under the seeded
// scheduler with regexp-cache evictions injected. Oracles: (1) the race detector (the
// scheduler's hand-offs are invisible to it, so two tasks are ordered only by what ygot
// itself synchronises on), (2) every task's results equal its solo results, (3) every task
// terminates, (4) no panic that the solo run did not have.

func init() {
	register("C21", func() Prop { return &c21Prop{} })
}

type c21Prop struct{}

type c21Sched struct {
	Seed     uint64         `json:"seed"`
	MeanGap  int            `json:"mean_gap"`
	Starve   int            `json:"starve"`
	StarveTo int64          `json:"starve_to"`
	Replay   bool           `json:"replay"`
	Explicit []simrt.Switch `json:"explicit,omitempty"`
	// RaceMode: the run is judged by the race detector, with library-internal
	// synchronisation hidden and coarse preemption (the detector's verdict is about
	// happens-before, not about where exactly the switches fall). Otherwise the run
	// explores fine-grained interleavings and is judged by result equality only.
	RaceMode bool `json:"race_mode"`
	LockBias int  `json:"lock_bias"`
	// SeedDriven: the run had more switches than the trace holds; it is replayed from the
	// scheduler seed (which decides every switch) instead of from the explicit list
	SeedDriven bool `json:"seed_driven,omitempty"`
}

type c21Case struct {
	Prop     string     `json:"property"`
	Pkg      string     `json:"pkg"`
	Seed     uint64     `json:"seed"`
	Workload string     `json:"workload"` // readers | writers | mixed
	TreeP    gen.Params `json:"tree_params"`
	Tasks    [][]Op     `json:"tasks"`
	Sched    c21Sched   `json:"sched"`
}

// c21World is everything the tasks share, rebuilt identically from the seed.
type c21World struct {
	p *corpus.Pkg
	// schema is unzipped afresh for every world, so that the concurrent phase meets a
	// schema nobody has touched yet (lazily filled caches on schema entries would otherwise
	// be warmed by the solo phase or by earlier runs of the process)
	schema *ytypes.Schema
	sch    *yang.Entry
	T, T2  ygot.GoStruct // shared, read-only for the tasks
	small  ygot.GoStruct // shared, read-only, passes validation (may be nil)
	leaves []*model.Leaf // leaves of T (for getnode / encode targets)
	paths  []string      // pool of paths (existing and absent) for getnode
	// shared input messages
	tvs   []c21TV
	jtvs  []c21TV // JSON-IETF payloads addressed at containers and list entries
	docs  [][]byte
	// jtrees are docs[0..2] decoded once: the decoded JSON value handed to ytypes.Unmarshal
	// is an input message shared by every task that unmarshals it
	jtrees []interface{}
	// gpaths are the gNMI forms of paths, built once and shared by every GetNode caller
	gpaths []*gpb.Path
	// prefix shared by the TogNMINotifications callers that render under a prefix
	pfxElems []*gpb.PathElem
	pfxStrs  []string
	reqs  []*gpb.SetRequest
	// ecfgs are rendering options a program keeps in one place and hands to every EmitJSON call
	ecfgs []*ygot.EmitJSONConfig
	roots []ygot.GoStruct // initial private roots of writer tasks (cloned per phase)
}

type c21TV struct {
	path *gpb.Path
	tv   *gpb.TypedValue
	tol  bool // needs TolerateJSONInconsistencies (int_val for an unsigned leaf)
}

var addrRe = regexp.MustCompile(`0x[0-9a-f]{6,}`)

func normErr(err error) string {
	if err == nil {
		return "ok"
	}
	s := addrRe.ReplaceAllString(err.Error(), "0xADDR")
	if len(s) > 400 {
		// the whole text takes part in the comparison (through its hash), not only its head
		s = s[:400] + "… #" + hashLines([]string{s})
	}
	return "err:" + s
}

// canonJSON re-serialises a JSON document with every array of objects sorted by content.
// ygot orders the entries of a multi-key list by fmt.Sprintf("%v", keyStruct); with
// wrapper unions the key struct holds a pointer, so that order depends on heap addresses
// and differs between two equal trees even in a sequential program. YANG list order (for
// lists that are not ordered-by user) carries no meaning, so it is not part of the result.
func canonJSON(b []byte) []byte {
	var v interface{}
	if err := json.Unmarshal(b, &v); err != nil {
		return b
	}
	out, err := json.Marshal(canonJSONValue(v))
	if err != nil {
		return b
	}
	return out
}

func canonJSONValue(v interface{}) interface{} {
	switch x := v.(type) {
	case map[string]interface{}:
		for k, e := range x {
			x[k] = canonJSONValue(e)
		}
		return x
	case []interface{}:
		objs := len(x) > 0
		for i, e := range x {
			x[i] = canonJSONValue(e)
			if _, ok := x[i].(map[string]interface{}); !ok {
				objs = false
			}
		}
		if objs {
			keys := make([]string, len(x))
			for i, e := range x {
				kb, _ := json.Marshal(e)
				keys[i] = string(kb)
			}
			sort.SliceStable(x, func(a, b int) bool { return false })
			idx := make([]int, len(x))
			for i := range idx {
				idx[i] = i
			}
			sort.SliceStable(idx, func(a, b int) bool { return keys[idx[a]] < keys[idx[b]] })
			out := make([]interface{}, len(x))
			for i, j := range idx {
				out[i] = x[j]
			}
			return out
		}
		return x
	}
	return v
}

func short(b []byte) string {
	if os.Getenv("HSIM_FULL") != "" {
		return string(b)
	}
	h := hashLines([]string{string(b)})
	return fmt.Sprintf("%d bytes #%s", len(b), h)
}

func buildWorld(c *c21Case) *c21World {
	w := &c21World{p: corpus.Get(c.Pkg)}
	simrt.Configure(simrt.MapCanon, 0, nil)
	w.schema = w.p.FreshSchema()
	w.sch = w.schema.RootSchema()
	r := simrt.NewRng(simrt.Mix(c.Seed, 1))
	tp := c.TreeP
	tp.NoNestedOrdered = true
	tp.AllowInvalid = true
	g := gen.New(&r, tp)
	w.T = g.Tree(w.p.RootType(), w.sch).(ygot.GoStruct)
	w.T2 = model.Clone(w.T).(ygot.GoStruct)
	g.Mutate(reflect.ValueOf(w.T2).Elem(), w.sch, 0, gen.DefaultEdit())
	m := model.Walk(w.T, w.sch, "")
	for _, p := range m.Paths() {
		w.leaves = append(w.leaves, m.Leaves[p])
	}
	for i := 0; i < 12; i++ {
		p, _ := drawPath(&r, m)
		w.paths = append(w.paths, p)
		gp := model.GNMI(p)
		if i%3 == 0 {
			// as decoded from the wire
			if b, err := proto.Marshal(gp); err == nil {
				n := &gpb.Path{}
				if proto.Unmarshal(b, n) == nil {
					gp = n
				}
			}
		}
		w.gpaths = append(w.gpaths, gp)
	}
	// a small tree that passes validation (one plain string leaf holding characters that
	// HTML escaping would rewrite): the default configuration of EmitJSON validates first
	for _, p := range m.Paths() {
		l := m.Leaves[p]
		if yangKindName(l.Schema) != "string" || l.Key || strings.Contains(p, "[") || l.Schema.Type == nil || len(l.Schema.Type.Pattern) > 0 || len(l.Schema.Type.Length) > 0 || l.Schema.ReadOnly() {
			continue
		}
		small := w.p.NewRoot()
		tv := &gpb.TypedValue{Value: &gpb.TypedValue_StringVal{StringVal: "a<b>&c"}}
		if ytypes.SetNode(w.sch, small, model.GNMI(p), tv, &ytypes.InitMissingElements{}) == nil && small.(ygot.ValidatedGoStruct).Validate() == nil {
			w.small = small
			break
		}
	}
	w.ecfgs = []*ygot.EmitJSONConfig{
		{Format: ygot.RFC7951, SkipValidation: true},
		{Format: ygot.Internal, SkipValidation: true},
		{Format: ygot.RFC7951, SkipValidation: true, RFC7951Config: &ygot.RFC7951JSONConfig{AppendModuleName: true}},
	}
	w.pfxElems = make([]*gpb.PathElem, 2, 8)
	w.pfxElems[0] = &gpb.PathElem{Name: "devices"}
	w.pfxElems[1] = &gpb.PathElem{Name: "device", Key: map[string]string{"name": "r1"}}
	w.pfxStrs = append(make([]string, 0, 8), "devices", "device[name=r1]")
	// input messages come from a third tree so that they are schema-conforming
	T3 := g.Tree(w.p.RootType(), w.sch).(ygot.GoStruct)
	m3 := model.Walk(T3, w.sch, "")
	for _, p := range m3.Paths() {
		l := m3.Leaves[p]
		if yangKindName(l.Schema) == "empty" {
			continue
		}
		tv, ok := model.LeafTV(l.Field)
		if !ok {
			continue
		}
		e := c21TV{path: model.GNMI(p), tv: tv}
		if u, isU := tv.GetValue().(*gpb.TypedValue_UintVal); isU && u.UintVal < 1<<40 && r.Intn(3) == 0 {
			e.tv = &gpb.TypedValue{Value: &gpb.TypedValue_IntVal{IntVal: int64(u.UintVal)}}
			e.tol = true
		}
		if d, isD := e.tv.GetValue().(*gpb.TypedValue_DoubleVal); isD && r.Intn(2) == 0 {
			// the deprecated single-precision spelling, which older targets still send
			e.tv = &gpb.TypedValue{Value: &gpb.TypedValue_FloatVal{FloatVal: float32(d.DoubleVal)}}
		}
		if r.Intn(4) == 0 {
			// a message as it comes off the wire
			b, _ := proto.Marshal(e.tv)
			n := &gpb.TypedValue{}
			if proto.Unmarshal(b, n) == nil {
				e.tv = n
			}
		}
		w.tvs = append(w.tvs, e)
	}
	if len(w.tvs) > 24 {
		w.tvs = w.tvs[:24]
	}
	for i := 0; i < 3; i++ {
		t := g.Tree(w.p.RootType(), w.sch)
		b, _ := json.Marshal(model.TreeJSON(reflect.ValueOf(t)))
		if i == 1 {
			// one document spells its top-level members the RFC 7951 way, "module:name"
			tj := model.TreeJSON(reflect.ValueOf(t))
			qualified := map[string]interface{}{}
			rt := reflect.TypeOf(t).Elem()
			for fi := 0; fi < rt.NumField(); fi++ {
				sf := rt.Field(fi)
				name := strings.Split(strings.Split(sf.Tag.Get("path"), "|")[0], "/")[0]
				mod := strings.Split(strings.Split(sf.Tag.Get("module"), "|")[0], "/")[0]
				if v, ok := tj[name]; ok && mod != "" {
					qualified[mod+":"+name] = v
					delete(tj, name)
				}
			}
			for k, v := range tj {
				qualified[k] = v
			}
			if qb, err := json.Marshal(qualified); err == nil {
				b = qb
			}
		}
		w.docs = append(w.docs, b)
		var jt interface{}
		if err := json.Unmarshal(b, &jt); err != nil {
			panic("C21: harness JSON does not parse: " + err.Error())
		}
		w.jtrees = append(w.jtrees, jt)
	}
	w.docs = append(w.docs, []byte(`{"no-such-top-level-node": {"x": 1}}`), []byte(`{"system": `))
	for i := 0; i < 4 && len(w.tvs) > 0; i++ {
		req := &gpb.SetRequest{Delete: make([]*gpb.Path, 0, 4), Replace: make([]*gpb.Update, 0, 4), Update: make([]*gpb.Update, 0, 8)}
		for j := 0; j < 1+r.Intn(3); j++ {
			e := w.tvs[r.Intn(len(w.tvs))]
			if e.tol {
				continue
			}
			switch r.Intn(3) {
			case 0:
				req.Delete = append(req.Delete, e.path)
			case 1:
				req.Replace = append(req.Replace, &gpb.Update{Path: e.path, Val: e.tv})
			default:
				req.Update = append(req.Update, &gpb.Update{Path: e.path, Val: e.tv})
			}
		}
		if r.Intn(2) == 0 && len(w.docs) > 0 {
			req.Update = append(req.Update, &gpb.Update{Path: &gpb.Path{}, Val: model.JSONTV(w.docs[r.Intn(3)])})
		} else if r.Intn(3) > 0 {
			factorPrefix(req, r.Intn(2) == 0)
		}
		if r.Intn(3) == 0 {
			// as decoded from the wire
			if b, err := proto.Marshal(req); err == nil {
				n := &gpb.SetRequest{}
				if proto.Unmarshal(b, n) == nil {
					req = n
				}
			}
		}
		w.reqs = append(w.reqs, req)
	}
	// requests as C13 generates them (deletes, replaces and updates at leaf, leaf-list,
	// container, list-entry and ordered-list targets, scalar and JSON-IETF payloads, optional
	// prefix); their JSON payloads at container / list-entry paths also join the pool of
	// values SetNode is called with
	ts := &treeState{p: w.p, sch: w.sch, root: T3, g: g, st: newStats()}
	rv := simrt.NewRng(simrt.Mix(c.Seed, 4))
	pp := tp
	pp.MaxList = 2
	vg := gen.New(&rv, pp)
	for i := 0; i < 5; i++ {
		op, ok := c13Draw(&r, vg, ts, false)
		if !ok || op.K != "setreq" {
			continue
		}
		req := &gpb.SetRequest{}
		if protojson.Unmarshal([]byte(op.arg("req")), req) != nil {
			continue
		}
		if req.Prefix != nil {
			// spare capacity, as a slice grown by append or decoded from the wire has
			req.Prefix.Elem = append(make([]*gpb.PathElem, 0, len(req.Prefix.Elem)+6), req.Prefix.Elem...)
		}
		w.reqs = append(w.reqs, req)
		for _, u := range append(append([]*gpb.Update{}, req.Replace...), req.Update...) {
			if _, isJSON := u.Val.GetValue().(*gpb.TypedValue_JsonIetfVal); !isJSON {
				continue
			}
			full := &gpb.Path{}
			if req.Prefix != nil {
				full.Elem = append(full.Elem, req.Prefix.Elem...)
			}
			full.Elem = append(full.Elem, u.Path.Elem...)
			w.jtvs = append(w.jtvs, c21TV{path: full, tv: u.Val})
		}
	}
	// numeric list keys are also spelled non-canonically ("007" for 7) in some of the shared
	// paths: legal, and code that rewrites a key into its canonical form must do so in a copy
	pad := func(p *gpb.Path) {
		for _, e := range p.GetElem() {
			for _, k := range model.SortedKeys(e.Key) {
				v := e.Key[k]
				if len(v) > 0 && len(v) < 5 && v[0] != '0' && strings.Trim(v, "0123456789") == "" && r.Intn(3) == 0 {
					e.Key[k] = "00" + v
				}
			}
		}
	}
	for _, req := range w.reqs {
		pad(req.Prefix)
		for _, d := range req.Delete {
			pad(d)
		}
		for _, u := range append(append([]*gpb.Update{}, req.Replace...), req.Update...) {
			pad(u.Path)
		}
	}
	for _, e := range w.tvs {
		pad(e.path)
	}
	sort.SliceStable(w.reqs, func(a, b int) bool { return w.reqs[a].Prefix != nil && w.reqs[b].Prefix == nil })
	for i := 0; i < len(c.Tasks); i++ {
		w.roots = append(w.roots, g.Tree(w.p.RootType(), w.sch).(ygot.GoStruct))
	}
	return w
}

// factorPrefix moves the common leading elements of every path of the request into its
// Prefix. The prefix's element slice gets spare capacity (as slices grown by append or
// decoded from the wire usually have), so that code appending to it without copying would
// write into memory shared by every user of the message.
func factorPrefix(req *gpb.SetRequest, whole bool) {
	var paths []*gpb.Path
	paths = append(paths, req.Delete...)
	for _, u := range req.Replace {
		paths = append(paths, u.Path)
	}
	for _, u := range req.Update {
		paths = append(paths, u.Path)
	}
	if len(paths) == 0 {
		return
	}
	n := len(paths[0].Elem) - 1
	for _, p := range paths[1:] {
		k := 0
		for k < n && k < len(p.Elem)-1 && proto.Equal(p.Elem[k], paths[0].Elem[k]) {
			k++
		}
		n = k
	}
	if n <= 0 {
		return
	}
	if !whole && n > 1 {
		n = 1
	}
	pre := make([]*gpb.PathElem, n, n+6)
	copy(pre, paths[0].Elem[:n])
	req.Prefix = &gpb.Path{Elem: pre}
	strip := func(p *gpb.Path) *gpb.Path { return &gpb.Path{Elem: append([]*gpb.PathElem{}, p.Elem[n:]...)} }
	for i := range req.Delete {
		req.Delete[i] = strip(req.Delete[i])
	}
	for _, u := range req.Replace {
		u.Path = strip(u.Path)
	}
	for _, u := range req.Update {
		u.Path = strip(u.Path)
	}
}

var c21ReadOps = []string{"emitjson-small", "validate", "validate-leafref", "emitjson", "emitjson-shared", "emitjson-rfc", "marshal7951", "construct", "tognmi", "tognmi-slice", "getnode", "getnode-wild", "diff", "diffatomic", "deepcopy", "encodetv", "evict"}
var c21WriteOps = []string{"unmarshal", "unmarshal", "unmarshal-tree", "setnode", "setnode", "setnode-json", "setnode-tol", "setreq", "setreq", "unmarshal-bad", "setnode-bad", "evict"}

func (p *c21Prop) genCase(seed uint64, tier string) *c21Case {
	r := simrt.NewRng(simrt.Mix(seed, 21))
	pkg := pickPkg(&r)
	c := &c21Case{Prop: "C21", Pkg: pkg.Name, Seed: seed, Workload: []string{"readers", "writers", "mixed"}[r.Intn(3)], TreeP: gen.SwarmParams(&r)}
	if c.TreeP.PLeaf < 0.3 {
		c.TreeP.PLeaf = 0.3
	}
	k := 2 + r.Intn(3)
	nops := 2 + r.Intn(4)
	if tier == "thorough" {
		k = 2 + r.Intn(5)
		nops = 2 + r.Intn(8)
	}
	for i := 0; i < k; i++ {
		kinds := c21ReadOps
		if c.Workload == "writers" || (c.Workload == "mixed" && i%2 == 1) {
			kinds = c21WriteOps
		}
		var ops []Op
		for j := 0; j < nops; j++ {
			ops = append(ops, Op{K: kinds[r.Intn(len(kinds))], A: map[string]string{"i": strconv.Itoa(r.Intn(1 << 16))}})
		}
		c.Tasks = append(c.Tasks, ops)
	}
	if r.Intn(3) == 0 {
		// a focus message: every writer task also applies the first request of the pool (one
		// with a prefix, if there is any), so that several callers are inside
		// UnmarshalSetRequest with the very same message
		for i := range c.Tasks {
			if c.Workload == "writers" || (c.Workload == "mixed" && i%2 == 1) {
				at := r.Intn(len(c.Tasks[i]) + 1)
				ops := append([]Op{}, c.Tasks[i][:at]...)
				ops = append(ops, Op{K: "setreq", A: map[string]string{"i": "0", "opt": strconv.Itoa(1 + i%3)}}) // the first request, with an option set that differs from task to task
				c.Tasks[i] = append(ops, c.Tasks[i][at:]...)
				// ... and unmarshals the same decoded document (the one with module-qualified names)
				at = r.Intn(len(c.Tasks[i]) + 1)
				ops = append([]Op{}, c.Tasks[i][:at]...)
				ops = append(ops, Op{K: "unmarshal-tree", A: map[string]string{"i": "1"}})
				c.Tasks[i] = append(ops, c.Tasks[i][at:]...)
				// ... and sets one and the same scalar message (a float_val, if the pool has one)
				at = r.Intn(len(c.Tasks[i]) + 1)
				ops = append([]Op{}, c.Tasks[i][:at]...)
				ops = append(ops, Op{K: "setnode", A: map[string]string{"i": "0", "float": "1"}})
				c.Tasks[i] = append(ops, c.Tasks[i][at:]...)
			}
		}
	}
	if r.Intn(4) == 0 {
		// the same for readers: each also renders the small validating tree with the default
		// configuration and with a non-default one, so that calls with different options on one
		// tree follow one another across tasks
		for i := range c.Tasks {
			if c.Workload == "readers" || (c.Workload == "mixed" && i%2 == 0) {
				{
					// the program-wide rendering options: one object, first used while tasks overlap
					at := r.Intn(len(c.Tasks[i]) + 1)
					ops := append([]Op{}, c.Tasks[i][:at]...)
					ops = append(ops, Op{K: "emitjson-shared", A: map[string]string{"i": "0"}})
					c.Tasks[i] = append(ops, c.Tasks[i][at:]...)
				}
				for _, v := range []string{"1", "0", "2"}[:2+r.Intn(2)] {
					at := r.Intn(len(c.Tasks[i]) + 1)
					ops := append([]Op{}, c.Tasks[i][:at]...)
					ops = append(ops, Op{K: "emitjson-small", A: map[string]string{"i": v}})
					c.Tasks[i] = append(ops, c.Tasks[i][at:]...)
				}
			}
		}
	}
	c.Sched = c21Sched{Seed: simrt.Mix(seed, 5), MeanGap: []int{2, 5, 20, 100, 1000, 20000}[r.Intn(6)], Starve: -1}
	c.Sched.LockBias = []int{0, 2, 4}[r.Intn(3)]
	if seed%2 == 0 {
		c.Sched.RaceMode = true
		c.Sched.MeanGap = []int{2000, 20000, 200000}[r.Intn(3)]
	}
	if r.Intn(4) == 0 {
		c.Sched.Starve = r.Intn(k)
		c.Sched.StarveTo = int64(1000 * (1 + r.Intn(50)))
	}
	return c
}

// runOp executes one operation of a task and returns its observable result.
func (w *c21World) runOp(op Op, root ygot.GoStruct) string {
	idx, _ := strconv.Atoi(op.arg("i"))
	pick := func(n int) int {
		if n == 0 {
			return 0
		}
		return idx % n
	}
	var out string
	perr := callSUT(func() {
		switch op.K {
		case "validate":
			out = normErr(w.T.(ygot.ValidatedGoStruct).Validate())
		case "validate-leafref":
			out = normErr(w.T.(ygot.ValidatedGoStruct).Validate(&ytypes.LeafrefOptions{IgnoreMissingData: true}))
		case "emitjson":
			ecfg := &ygot.EmitJSONConfig{Format: ygot.Internal, SkipValidation: idx%2 == 0}
			switch idx % 7 {
			case 3:
				ecfg = nil // the defaults
			case 5:
				ecfg.EscapeHTML = true
			}
			s, err := ygot.EmitJSON(w.T, ecfg)
			out = short(canonJSON([]byte(s))) + " " + normErr(err)
		case "emitjson-small":
			if w.small == nil {
				out = "no small tree"
				return
			}
			var ecfg *ygot.EmitJSONConfig // idx%3 == 0: the defaults
			switch idx % 3 {
			case 1:
				ecfg = &ygot.EmitJSONConfig{EscapeHTML: true}
			case 2:
				ecfg = &ygot.EmitJSONConfig{Format: ygot.RFC7951, Indent: " ", RFC7951Config: &ygot.RFC7951JSONConfig{AppendModuleName: true}}
			}
			s, err := ygot.EmitJSON(w.small, ecfg)
			out = s + " " + normErr(err)
		case "emitjson-shared":
			s, err := ygot.EmitJSON(w.T, w.ecfgs[idx%len(w.ecfgs)])
			out = short(canonJSON([]byte(s))) + " " + normErr(err)
		case "emitjson-rfc":
			cfg := &ygot.RFC7951JSONConfig{AppendModuleName: idx%2 == 0}
			switch (idx / 2) % 4 {
			case 1:
				cfg.PrependModuleNameIdentityref = true
			case 2:
				cfg.PreferShadowPath = true
			case 3:
				cfg.RewriteModuleNames = map[string]string{"verif-types": "verif-oc", "ctestschema": "ctestschema-rootmod"}
			}
			ec := &ygot.EmitJSONConfig{Format: ygot.RFC7951, SkipValidation: true, RFC7951Config: cfg}
			if idx%5 == 0 {
				ec.Indent = "\t"
				ec.EscapeHTML = true
			}
			s, err := ygot.EmitJSON(w.T, ec)
			out = short(canonJSON([]byte(s))) + " " + normErr(err)
		case "marshal7951":
			b, err := ygot.Marshal7951(w.T, &ygot.RFC7951JSONConfig{AppendModuleName: idx%2 == 0}, ygot.JSONIndent("  "))
			out = short(canonJSON(b)) + " " + normErr(err)
		case "construct":
			m, err := ygot.ConstructIETFJSON(w.T, &ygot.RFC7951JSONConfig{})
			b, _ := json.Marshal(m)
			out = short(canonJSON(b)) + " " + normErr(err)
		case "tognmi", "tognmi-slice":
			ncfg := ygot.GNMINotificationsConfig{UsePathElem: op.K == "tognmi"}
			if idx%3 == 0 {
				// the prefix slices are shared by every caller (spare capacity: an append that
				// does not copy first would write into them)
				if ncfg.UsePathElem {
					ncfg.PathElemPrefix = w.pfxElems
				} else {
					ncfg.StringSlicePrefix = w.pfxStrs
				}
			}
			ns, err := ygot.TogNMINotifications(w.T, 42, ncfg)
			var sb strings.Builder
			for _, n := range ns {
				sb.WriteString(canonNotif(n))
			}
			out = short([]byte(sb.String())) + " " + normErr(err)
		case "getnode", "getnode-wild":
			var opts []ytypes.GetNodeOpt
			if op.K == "getnode-wild" {
				opts = append(opts, &ytypes.GetHandleWildcards{}, &ytypes.GetPartialKeyMatch{})
			}
			nodes, err := ytypes.GetNode(w.sch, w.T, w.gpaths[pick(len(w.gpaths))], opts...)
			var parts []string
			for _, n := range nodes {
				parts = append(parts, model.FromGNMI(nil, n.Path))
			}
			sort.Strings(parts)
			out = fmt.Sprintf("%d nodes %v %s", len(nodes), parts, normErr(err))
		case "diff":
			var opts []ygot.DiffOpt
			switch idx % 5 {
			case 1:
				opts = append(opts, &ygot.DiffPathOpt{MapToSinglePath: true})
			case 2:
				opts = append(opts, &ygot.IgnoreAdditions{})
			case 3:
				opts = append(opts, &ygot.DiffPathOpt{PreferShadowPath: true})
			case 4:
				opts = append(opts, &ygot.DiffPathOpt{MapToSinglePath: true, PreferShadowPath: true}, &ygot.IgnoreAdditions{})
			}
			b := w.T2
			if (idx/5)%4 == 0 {
				b = w.T // nothing has changed since the last poll: the common case of a telemetry loop
			}
			n, err := ygot.Diff(w.T, b, opts...)
			out = short([]byte(canonNotif(n))) + " " + normErr(err)
			if n != nil {
				out = fmt.Sprintf("pfx=%v %s", n.Prefix != nil, out)
				// the caller owns the result: it stamps it before sending it on, as Diff's
				// documentation asks ("the timestamp is not set")
				n.Timestamp = int64(idx) + 1
				n.Prefix = &gpb.Path{Target: "dut-" + strconv.Itoa(idx%7)}
			}
		case "diffatomic":
			var opts []ygot.DiffOpt
			switch idx % 3 {
			case 1:
				opts = append(opts, &ygot.DiffPathOpt{MapToSinglePath: true})
			case 2:
				opts = append(opts, &ygot.DiffPathOpt{PreferShadowPath: true})
			}
			ns, err := ygot.DiffWithAtomic(w.T, w.T2, opts...)
			var sb strings.Builder
			for _, n := range ns {
				sb.WriteString(canonNotif(n))
			}
			out = short([]byte(sb.String())) + " " + normErr(err)
		case "deepcopy":
			cp, err := ygot.DeepCopy(w.T)
			if err == nil {
				out = short([]byte(model.Walk(cp, w.sch, "").Fingerprint()))
			}
			out += " " + normErr(err)
		case "encodetv":
			if len(w.leaves) == 0 {
				out = "no leaves"
				return
			}
			l := w.leaves[pick(len(w.leaves))]
			enc := gpb.Encoding_JSON_IETF
			if idx%2 == 0 {
				enc = gpb.Encoding_PROTO
			}
			tv, err := ygot.EncodeTypedValue(l.Field.Interface(), enc)
			out = prototext.MarshalOptions{}.Format(tv) + " " + normErr(err)
		case "evict":
			ytypes.VerifEvictRegexpCache()
			out = "evicted"
		case "unmarshal", "unmarshal-bad":
			d := w.docs[pick(3)]
			if op.K == "unmarshal-bad" {
				d = w.docs[3+pick(len(w.docs)-3)]
			}
			var opts []ytypes.UnmarshalOpt
			if idx%3 == 0 {
				opts = append(opts, &ytypes.IgnoreExtraFields{})
			}
			out = normErr(w.p.Unmarshal(d, root, opts...))
		case "unmarshal-tree":
			var opts []ytypes.UnmarshalOpt
			if idx%3 == 0 {
				opts = append(opts, &ytypes.IgnoreExtraFields{})
			}
			if idx%4 == 1 {
				opts = append(opts, &ytypes.PreferShadowPath{})
			}
			out = normErr(ytypes.Unmarshal(w.sch, root, w.jtrees[pick(len(w.jtrees))], opts...))
		case "setnode", "setnode-tol", "setnode-bad":
			if len(w.tvs) == 0 {
				out = "no values"
				return
			}
			e := w.tvs[pick(len(w.tvs))]
			if op.arg("float") == "1" {
				// the focus message: the first float_val of the pool, if there is one
				for _, x := range w.tvs {
					if _, ok := x.tv.GetValue().(*gpb.TypedValue_FloatVal); ok {
						e = x
						break
					}
				}
			}
			opts := []ytypes.SetNodeOpt{&ytypes.InitMissingElements{}}
			if op.K == "setnode-tol" || e.tol {
				opts = append(opts, &ytypes.TolerateJSONInconsistencies{})
			}
			path := e.path
			if op.K == "setnode-bad" {
				path = &gpb.Path{Elem: append(append([]*gpb.PathElem{}, e.path.Elem...), &gpb.PathElem{Name: "no-such-node"})}
			}
			out = normErr(ytypes.SetNode(w.sch, root, path, e.tv, opts...))
		case "setnode-json":
			if len(w.jtvs) == 0 {
				out = "no values"
				return
			}
			e := w.jtvs[pick(len(w.jtvs))]
			out = normErr(ytypes.SetNode(w.sch, root, e.path, e.tv, &ytypes.InitMissingElements{}))
		case "setreq":
			if len(w.reqs) == 0 {
				out = "no requests"
				return
			}
			// two callers must often hand in the very same message: most picks go to the first
			// three requests of the pool (those with a prefix are put first)
			n := len(w.reqs)
			if n > 3 && idx%4 != 0 {
				n = 3
			}
			req := w.reqs[pick(n)]
			schema := &ytypes.Schema{Root: root, SchemaTree: w.schema.SchemaTree, Unmarshal: w.p.Unmarshal}
			var uopts []ytypes.UnmarshalOpt
			oset := (idx / 4) % 4
			if o := op.arg("opt"); o != "" {
				oset, _ = strconv.Atoi(o)
			}
			switch oset {
			case 1:
				uopts = append(uopts, &ytypes.IgnoreExtraFields{})
			case 2:
				uopts = append(uopts, &ytypes.PreferShadowPath{})
			case 3:
				uopts = append(uopts, &ytypes.PreferShadowPath{}, &ytypes.IgnoreExtraFields{})
			}
			out = normErr(ytypes.UnmarshalSetRequest(schema, req, uopts...))
		default:
			panic("C21: unknown op " + op.K)
		}
	})
	if perr != nil {
		return "panic:" + addrRe.ReplaceAllString(fmt.Sprint(perr.v), "0xADDR") + " " + trimStack(perr.stack)
	}
	return out
}

// canonNotif renders a notification with its deletes and updates sorted: their order is
// the iteration order of Go maps inside ygot (some keyed by pointers), which even a real
// sequential run does not keep stable, so it is not part of "the result".
func canonNotif(n *gpb.Notification) string {
	if n == nil {
		return "<nil>"
	}
	var lines []string
	for _, d := range n.Delete {
		lines = append(lines, "D "+model.FromGNMI(n.Prefix, d))
	}
	for _, u := range n.Update {
		lines = append(lines, "U "+model.FromGNMI(n.Prefix, u.Path)+" "+model.DescribeTV(u.Val))
	}
	if !n.Atomic {
		// the order inside an atomic notification is data (ordered lists); elsewhere it is
		// the iteration order of a Go map and carries no meaning
		sort.Strings(lines)
	}
	return fmt.Sprintf("atomic=%v ts=%d\n%s\n", n.Atomic, n.Timestamp, strings.Join(lines, "\n"))
}

type c21TaskResult struct {
	Ops   []string
	Final string
}

func (w *c21World) isWriter(ops []Op) bool {
	for _, o := range ops {
		switch o.K {
		case "unmarshal", "unmarshal-tree", "unmarshal-bad", "setnode", "setnode-json", "setnode-tol", "setnode-bad", "setreq":
			return true
		}
	}
	return false
}

func (w *c21World) runTask(ops []Op, root ygot.GoStruct, res *c21TaskResult) {
	for _, op := range ops {
		res.Ops = append(res.Ops, op.K+": "+w.runOp(op, root))
	}
	if root != nil {
		res.Final = short([]byte(model.Walk(root, w.sch, "").Fingerprint()))
	}
}

func (p *c21Prop) exec(c *c21Case) (*Violation, *Result) {
	res := &Result{Seed: c.Seed, Pkg: c.Pkg, Faults: map[string]int{}, Probes: map[string]int{}, Extra: map[string]any{}}
	// Two worlds with equal content and distinct objects: the solo reference runs must not
	// "use up" a first-touch effect (e.g. a lazily rewritten input message) before the
	// concurrent phase gets to see the shared objects fresh.
	ws := buildWorld(c)
	w := buildWorld(c)
	k := len(c.Tasks)
	ctxSeed := func(i int) uint64 { return simrt.Mix(c.Seed, uint64(100+i)) }
	// phase 1: every task alone, on its own copy of its private root, in a world of its own
	// (reference results). It runs first so that the caches inside the Go runtime and the
	// reflect package (pointer-type and method tables, built lazily under locks this harness
	// hides from the race detector in race mode) are warm when tasks overlap; what ygot
	// itself initialises lazily is made cold again below.
	solo := make([]c21TaskResult, k)
	ws.p.SetGlobalTree(ws.schema.SchemaTree)
	ytypes.VerifEvictRegexpCache()
	for i := range c.Tasks {
		var root ygot.GoStruct
		if ws.isWriter(c.Tasks[i]) {
			root = model.Clone(ws.roots[i]).(ygot.GoStruct)
		}
		ctx := simrt.NewCtx(i, fmt.Sprintf("solo-%d", i), simrt.MapRandom, ctxSeed(i), nil)
		// every reference run starts from the state of a fresh process, so that what one
		// task leaves behind (in a pool, a cache) is not part of the next task's reference
		simrt.ResetGlobals()
		ytypes.VerifEvictRegexpCache()
		simrt.With(ctx, func() { ws.runTask(c.Tasks[i], root, &solo[i]) })
	}
	// phase 2: all tasks interleaved, on a schema and messages nobody has touched yet (the
	// second world)
	// ... and on package-level state as a fresh process has it: every package-level variable of
	// ygot's runtime packages is re-initialised (simulated process restart; nothing is durable),
	// so that state filled lazily once per process meets its first users while they overlap
	res.Faults["process_restart"] = 0
	if simrt.ResetGlobals() > 0 {
		res.Faults["process_restart"] = 1
	}
	w.p.SetGlobalTree(w.schema.SchemaTree)
	ytypes.VerifEvictRegexpCache()
	conc := make([]c21TaskResult, k)
	ctxs := make([]*simrt.Ctx, k)
	fns := make([]func(), k)
	for i := range c.Tasks {
		i := i
		var root ygot.GoStruct
		if w.isWriter(c.Tasks[i]) {
			root = model.Clone(w.roots[i]).(ygot.GoStruct)
		}
		ctxs[i] = simrt.NewCtx(i, fmt.Sprintf("task-%d", i), simrt.MapRandom, ctxSeed(i), nil)
		fns[i] = func() { w.runTask(c.Tasks[i], root, &conc[i]) }
	}
	racesBefore := simrt.RaceErrors()
	logBefore := raceLogSize()
	deadlock := ""
	simrt.OnDeadlock = func(msg string) { deadlock = msg; panic("simrt: " + msg) }
	sr, trs := simrt.RunTasks(simrt.SchedCfg{Seed: c.Sched.Seed, MeanGap: c.Sched.MeanGap, Starve: c.Sched.Starve, StarveTo: c.Sched.StarveTo,
		Replay: c.Sched.Replay, Explicit: c.Sched.Explicit, MaxSteps: 50_000_000, HideSync: c.Sched.RaceMode && *flagHideSync && simrt.RaceBuild, LockBias: c.Sched.LockBias}, ctxs, fns)
	races := simrt.RaceErrors() - racesBefore
	// every instrumented mutex must be free again now that all tasks have returned (and is
	// freed, so that the process can go on)
	leftHeld := simrt.ReleaseLeftHeld()
	if os.Getenv("HSIM_TRACE") != "" {
		res.Extra["trace"] = firstSwitches(sr.Trace, 1<<30)
	}
	if os.Getenv("HSIM_FULL") != "" {
		res.Extra["solo_results"] = solo
		res.Extra["interleaved_results"] = conc
	}
	res.Steps = sr.Steps
	res.Extra["sched_hash"] = fmt.Sprintf("%016x", sr.Hash)
	res.Extra["preempts"] = sr.Preempts
	res.Extra["blocked"] = sr.Blocked
	res.Faults["preemption"] = sr.Preempts
	res.Faults["lock_contention_switch"] = sr.Blocked
	if c.Sched.Starve >= 0 {
		res.Faults["starvation_window"] = 1
	}
	for _, ops := range c.Tasks {
		for _, o := range ops {
			if o.K == "evict" {
				res.Faults["cache_eviction"]++
			}
			if strings.HasSuffix(o.K, "-bad") {
				res.Faults["failing_operation"]++
			}
		}
	}
	// distinct interleavings: which (preempted site -> resumed task) pairs occurred
	pairs := map[string]bool{}
	for _, s := range sr.Trace {
		if s.Kind == "preempt" || s.Kind == "blocked" {
			pairs[fmt.Sprintf("%s>%d", s.Site, s.To)] = true
		}
	}
	res.Extra["switch_sites"] = len(pairs)
	overlap := sr.Preempts+sr.Blocked > 0
	res.Nontrivial = overlap
	if overlap {
		res.Probes["tasks_overlapped"]++
	}
	if sr.Blocked > 0 {
		res.Probes["lock_observed_held_at_switch"]++
	}
	res.Probes["workload:"+c.Workload]++
	var lines []string
	for i := range conc {
		lines = append(lines, conc[i].Ops...)
		lines = append(lines, conc[i].Final)
	}
	res.LogHash = hashLines(lines)
	res.Fp = hashLines(append([]string{c.Pkg, fmt.Sprintf("%016x", sr.Hash)}, lines...))
	res.Sample = map[string]any{"pkg": c.Pkg, "workload": c.Workload, "tasks": opKinds(c.Tasks), "mean_gap": c.Sched.MeanGap, "preempts": sr.Preempts, "steps": sr.Steps, "first_switches": firstSwitches(sr.Trace, 5)}
	c.Sched.Explicit = nil
	c.Sched.SeedDriven = sr.Truncated || c.Sched.SeedDriven
	if !c.Sched.SeedDriven {
		for _, s := range sr.Trace {
			if s.Kind == "preempt" {
				c.Sched.Explicit = append(c.Sched.Explicit, s)
			}
		}
	}
	// oracles
	if len(leftHeld) > 0 && deadlock == "" && !sr.Deadlock {
		sort.Strings(leftHeld)
		return violation("C21", "lock-left-held", "C21:lock-left-held:"+leftHeld[0], "all tasks have returned but %d lock acquisition(s) were never released: %v", len(leftHeld), leftHeld), res
	}
	if deadlock != "" || sr.Deadlock {
		return violation("C21", "deadlock", "C21:deadlock", "all tasks blocked: %s", deadlock), res
	}
	if sr.Overrun {
		return violation("C21", "no-progress", "C21:no-progress", "the run exceeded %d yield points", 50_000_000), res
	}
	for i, tr := range trs {
		if tr.Panic != nil {
			return violation("C21", "panic", "C21:harness-task-panic", "task %d panicked outside an operation: %v", i, tr.Panic), res
		}
	}
	var found []raceFinding
	artefacts := 0
	if c.Sched.RaceMode {
		found, artefacts = classifyRaces(raceLogTail(logBefore))
		res.Probes["race_mode_runs"]++
	} else {
		res.Probes["interleaving_mode_runs"]++
	}
	res.Extra["race_reports_outside_ygot"] = artefacts
	res.Extra["race_reports_total"] = races
	if len(found) > 0 {
		var sigs []string
		for _, f := range found {
			sigs = append(sigs, "C21:race:"+f.Sig)
		}
		res.Extra["all_signatures"] = sigs
		return violation("C21", "data-race", "C21:race:"+found[0].Sig, "%d data race(s) involving ygot code between concurrently running tasks (%s workload); first:\n%s", len(found), c.Workload, found[0].Text), res
	}
	for i := range solo {
		for j := range solo[i].Ops {
			if j < len(conc[i].Ops) && solo[i].Ops[j] != conc[i].Ops[j] {
				kind := strings.SplitN(solo[i].Ops[j], ":", 2)[0]
				return violation("C21", "schedule-dependent", "C21:result:"+kind, "task %d op %d gives a different result when interleaved:\n  alone:       %s\n  interleaved: %s", i, j, clip(solo[i].Ops[j], fullClip()), clip(conc[i].Ops[j], fullClip())), res
			}
		}
		if solo[i].Final != conc[i].Final {
			return violation("C21", "schedule-dependent", "C21:result:final-tree", "task %d ends with a different private tree when interleaved", i), res
		}
	}
	return nil, res
}

func fullClip() int {
	if os.Getenv("HSIM_FULL") != "" {
		return 1 << 20
	}
	return 300
}

func clip(s string, n int) string {
	if len(s) > n {
		return s[:n] + "…"
	}
	return s
}

func opKinds(tasks [][]Op) [][]string {
	out := make([][]string, len(tasks))
	for i, t := range tasks {
		for _, o := range t {
			out[i] = append(out[i], o.K)
		}
	}
	return out
}

func firstSwitches(tr []simrt.Switch, n int) []string {
	var out []string
	for _, s := range tr {
		if len(out) >= n {
			break
		}
		out = append(out, fmt.Sprintf("step %d %s %d->%d at %s", s.Step, s.Kind, s.From, s.To, s.Site))
	}
	return out
}

// The race detector writes its reports to GORACE log_path.<pid> (set by verifctl).
func raceLogPath() string {
	for _, kv := range strings.Fields(os.Getenv("GORACE")) {
		if strings.HasPrefix(kv, "log_path=") {
			return strings.TrimPrefix(kv, "log_path=") + "." + strconv.Itoa(os.Getpid())
		}
	}
	return ""
}

func raceLogSize() int64 {
	if p := raceLogPath(); p != "" {
		if st, err := os.Stat(p); err == nil {
			return st.Size()
		}
	}
	return 0
}

func raceLogTail(from int64) string {
	p := raceLogPath()
	if p == "" {
		return ""
	}
	b, err := os.ReadFile(p)
	if err != nil || int64(len(b)) <= from {
		return ""
	}
	return string(b[from:])
}

var frameRe = regexp.MustCompile(`(?m)^\s+(\S+)\(\)\n\s+(\S+?):(\d+)`)
var accessRe = regexp.MustCompile(`(?m)^(Read|Write|Previous read|Previous write) at 0x[0-9a-f]+ by `)

var flagHideSync = flag.Bool("hidesync", true, "C21: hide library-internal synchronisation from the race detector (only sound when the code under test synchronises with sync.Mutex/RWMutex alone)")

// raceFinding is one data-race report attributed to the code under test.
type raceFinding struct {
	Sig, Text string
}

// classifyRaces splits the detector's output into reports and keeps those in which at
// least one of the two conflicting accesses is performed directly by the code under test:
// walking its stack from the innermost frame outwards, through Go runtime and reflect
// frames only, the first other frame lies in the scratch copy of the repository (ygot or
// generated code, not the harness). Everything else - both accesses inside a dependency or
// the harness - is not ygot's doing: with -hidesync such reports are the expected artefact
// of hiding the libraries' own synchronisation (sync.Pool reuse inside fmt, regexp,
// protobuf ...), and they are counted, not reported.
func classifyRaces(log string) (found []raceFinding, artefacts int) {
	for _, rep := range strings.Split(log, "==================") {
		if !strings.Contains(rep, "WARNING: DATA RACE") {
			continue
		}
		var sides []string
		attributed := false
		for _, b := range strings.Split(rep, "\n\n") {
			m := accessRe.FindStringSubmatch(b)
			if m == nil {
				continue
			}
			kind := strings.ReplaceAll(strings.ToLower(m[1]), " ", "-")
			pos := ""
			for _, fm := range frameRe.FindAllStringSubmatch(b, -1) {
				fn, file := fm[1], fm[2]
				if strings.HasPrefix(fn, "runtime.") || strings.HasPrefix(fn, "reflect.") {
					continue
				}
				i := strings.Index(file, "/src/")
				if strings.Contains(file, "/verif-cache/") && i >= 0 {
					rel := file[i+5:]
					if !strings.HasPrefix(rel, "verifharness/") && !strings.HasPrefix(rel, "verifsim/") && !strings.HasPrefix(rel, "verifgoyang/") {
						pos = rel + ":" + fm[3]
					}
				}
				break
			}
			if pos != "" {
				attributed = true
				sides = append(sides, kind+"@"+pos)
			} else {
				sides = append(sides, kind+"@elsewhere")
			}
			if len(sides) >= 2 {
				break
			}
		}
		if !attributed {
			artefacts++
			continue
		}
		sort.Strings(sides)
		found = append(found, raceFinding{Sig: strings.Join(sides, "|"), Text: clip(strings.TrimSpace(rep), 2200)})
	}
	return found, artefacts
}

var c21Warm bool

// warmUp runs one fixed throw-away case first in every process, so that a case executes
// under the same conditions whether it is the first of a process (a replay) or not
// (lazy initialisation inside the Go runtime, the race runtime and the libraries is
// done; goroutine descriptors are recycled rather than fresh).
func (p *c21Prop) warmUp() {
	if c21Warm {
		return
	}
	c21Warm = true
	for _, s := range []uint64{2, 3} {
		c := p.genCase(s, "quick")
		// always on the repository's small integration schema: whatever ygot initialises lazily
		// per generated type or per schema stays cold for the other packages, so that their
		// first users are tasks of a real, interleaved case
		c.Pkg = "cts"
		p.exec(c)
	}
}

func (p *c21Prop) Run(seed uint64, tier string) *Result {
	if !c21Warm {
		p.warmUp()
		// the warm-up's map-order events must not be booked on the first seed of the process
		simrt.ResetStats()
	}
	c := p.genCase(seed, tier)
	v, res := p.exec(c)
	if v != nil {
		res.Violation = v
		c.Sched.Replay = !c.Sched.SeedDriven
		res.Case = c
	}
	return res
}

func (p *c21Prop) Replay(raw json.RawMessage) *Result {
	var c c21Case
	if err := json.Unmarshal(raw, &c); err != nil {
		return &Result{Internal: "bad case: " + err.Error()}
	}
	p.warmUp()
	if os.Getenv("HSIM_TWICE") != "" {
		cc := c
		p.exec(&cc)
	}
	v, res := p.exec(&c)
	res.Violation = v
	if v != nil {
		res.Case = &c
	}
	return res
}
