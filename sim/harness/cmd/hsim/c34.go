package main

import (
	"reflect"
	"sort"
	"strconv"
	"strings"

	"github.com/openconfig/ygot/verifharness/gen"
	"github.com/openconfig/ygot/verifharness/model"
	"verifsim/simrt"
)

// C34 — generated keyed-list helpers behave as a keyed map.
//
// A seeded history of New/GetOrCreate/Get/Append/Delete/Rename calls on one generated
// keyed list is stepped in lock-step with a map reference model (key tuple -> element
// identity). Rejected operations (duplicate key, nil key, rename onto an existing key or
// from an absent key) are the injected faults and must leave the map unchanged.

func init() {
	register("C34", func() Prop {
		return &histProp{name: "C34", header: c34Header, exec: c34Exec}
	})
}

func c34Header(seed uint64, tier string) *Case {
	r := simrt.NewRng(simrt.Mix(seed, 34))
	t := pickTarget(&r, model.FList)
	n := 3 + r.Intn(10)
	if tier == "thorough" {
		n = 3 + r.Intn(28)
	}
	return &Case{Prop: "C34", Pkg: t.Pkg.Name, Seed: seed, Target: t.String(), Faults: seed%2 == 1,
		MapMode: int(simrt.MapRandom), MapSeed: simrt.Mix(seed, 3), TreeP: gen.DefaultParams(), NOps: n}
}

type c34State struct {
	t      *listTarget
	root   reflect.Value
	parent reflect.Value
	pool   []poolKey
	vals   map[int]reflect.Value
	st     *execStats
	// held is the map an earlier GetOrCreate<List>Map call returned: the caller's handle on the list
	held reflect.Value
}

func (s *c34State) lm() reflect.Value { return s.parent.Elem().Field(s.t.Field) }

func (s *c34State) method(prefix string) reflect.Value {
	return s.parent.MethodByName(prefix + s.t.FieldName)
}

func (t *listTarget) keyClass() string {
	names := model.KeyNames(t.ListSch)
	if len(names) > 1 {
		return "multikey"
	}
	kt := t.KeyType
	switch kt.Kind() {
	case reflect.Interface:
		return "unionkey"
	case reflect.Int64:
		if _, ok := kt.MethodByName("IsYANGGoEnum"); ok {
			return "enumkey"
		}
	}
	return kt.Kind().String() + "key"
}

func (s *c34State) check(after string) *Violation {
	sigp := "C34:" + s.t.keyClass() + ":"
	lm := s.lm()
	names := model.KeyNames(s.t.ListSch)
	got := map[string]reflect.Value{}
	if !lm.IsNil() {
		it := lm.MapRange()
		for it.Next() {
			got[model.FormatKeys(model.MapKeyStrings(it.Key(), names))] = it.Value()
		}
	}
	var gk, wk []string
	for k := range got {
		gk = append(gk, k)
	}
	for pi := range s.vals {
		wk = append(wk, s.pool[pi].Str)
	}
	sort.Strings(gk)
	sort.Strings(wk)
	if strings.Join(gk, " ") != strings.Join(wk, " ") {
		return violation("C34", "model-mismatch", sigp+"keys", "after %s: list holds keys %v, model holds %v", after, gk, wk)
	}
	for pi, want := range s.vals {
		if !ptrEq(got[s.pool[pi].Str], want) {
			return violation("C34", "model-mismatch", sigp+"identity", "after %s: entry stored under %s is not the element the model expects", after, s.pool[pi].Str)
		}
	}
	// Get agrees with the model for every pool key and never creates entries
	before := 0
	if !lm.IsNil() {
		before = lm.Len()
	}
	get := s.method("Get")
	for pi, pk := range s.pool {
		var g reflect.Value
		if p := callSUT(func() { g = get.Call(callArgs(get, keyArgs(pk.Key)))[0] }); p != nil {
			return violation("C34", "panic", "C34:panic:get", "after %s: Get%s(%s) panicked: %v", after, s.t.FieldName, pk.Str, p.v)
		}
		want, present := s.vals[pi]
		if present != !g.IsNil() || (present && !ptrEq(g, want)) {
			return violation("C34", "model-mismatch", sigp+"get", "after %s: Get%s(%s) disagrees with the model (present=%v)", after, s.t.FieldName, pk.Str, present)
		}
	}
	afterN := 0
	if l := s.lm(); !l.IsNil() {
		afterN = l.Len()
	}
	if afterN != before {
		return violation("C34", "model-mismatch", sigp+"get-creates", "after %s: Get changed the number of entries from %d to %d", after, before, afterN)
	}
	// a handle on the list obtained from GetOrCreate<List>Map stays the list: no helper swaps
	// the map for another one behind the holder's back
	if s.held.IsValid() {
		s.st.Probes["held_map_checked"]++
		if l := s.lm(); l.IsNil() || l.Pointer() != s.held.Pointer() {
			return violation("C34", "retention", sigp+"held-map", "after %s: the map GetOrCreate%sMap returned earlier is no longer the list's map (entries added now are invisible through it)", after, s.t.FieldName)
		}
	}
	// each entry's key leaves equal its map key
	m := model.Walk(s.root.Interface(), s.t.Pkg.Schema().RootSchema(), "")
	if len(m.Problems) > 0 {
		return violation("C34", "invariant", sigp+"keyleaves", "after %s: %s", after, strings.Join(m.Problems, "; "))
	}
	return nil
}

var c34OpsLegal = []string{"new", "new", "getorcreate", "getorcreate", "append", "delete", "delete", "rename", "rename", "get", "getorcreatemap"}
var c34OpsFault = []string{"new", "append", "append-nilkey", "rename", "rename", "rename-unset", "delete", "nilrecv-get", "getorcreate"}

func c34Exec(c *Case, generate bool) (*Violation, *execStats) {
	st := newStats()
	t := findTarget(c.Target, model.FList)
	rs := simrt.NewRng(simrt.Mix(c.Seed, 1))
	ro := simrt.NewRng(simrt.Mix(c.Seed, 2))
	simrt.Configure(simrt.MapMode(c.MapMode), c.MapSeed, nil)
	g := gen.New(&rs, c.TreeP)
	s := &c34State{t: t, vals: map[int]reflect.Value{}, st: st}
	s.root, s.parent = t.instantiate(g)
	s.pool = t.keyPool(g, 3+int(c.Seed%2))
	if len(s.pool) < 2 {
		// key domains of size < 2 (e.g. none) cannot exercise the property
		panic("C34: key pool too small for " + t.String())
	}
	st.logf("target %s (%s) pool %v", t, t.keyClass(), poolStrs(s.pool))
	nops := c.NOps
	if !generate {
		nops = len(c.Ops)
	}
	for i := 0; i < nops; i++ {
		var op Op
		if generate {
			op = c34Draw(&ro, s, c.Faults)
			c.Ops = append(c.Ops, op)
		} else {
			op = c.Ops[i]
		}
		st.Steps++
		if v := c34Apply(s, op); v != nil {
			st.logf("%d %s -> VIOLATION %s", i, op, v.Oracle)
			return v, st
		}
		if v := s.check(op.String()); v != nil {
			st.logf("%d %s -> VIOLATION %s", i, op, v.Oracle)
			return v, st
		}
		st.logf("%d %s -> keys %v", i, op, s.modelKeys())
	}
	return nil, st
}

func (s *c34State) modelKeys() []int {
	var ks []int
	for k := range s.vals {
		ks = append(ks, k)
	}
	sort.Ints(ks)
	return ks
}

func c34Draw(r *simrt.Rng, s *c34State, faults bool) Op {
	kinds := c34OpsLegal
	if faults && r.Intn(2) == 0 {
		kinds = c34OpsFault
	}
	k := kinds[r.Intn(len(kinds))]
	op := Op{K: k, A: map[string]string{}}
	pi := r.Intn(len(s.pool))
	var absent, present []int
	for i := range s.pool {
		if _, ok := s.vals[i]; ok {
			present = append(present, i)
		} else {
			absent = append(absent, i)
		}
	}
	switch k {
	case "new", "append":
		if !faults {
			if len(absent) == 0 {
				return Op{K: "delete", A: map[string]string{"key": strconv.Itoa(pi)}}
			}
			pi = absent[r.Intn(len(absent))]
		}
		op.A["key"] = strconv.Itoa(pi)
	case "append-nilkey":
		op.A["key"] = strconv.Itoa(pi)
		op.A["which"] = strconv.Itoa(r.Intn(4))
	case "getorcreate", "delete", "get", "nilrecv-get":
		op.A["key"] = strconv.Itoa(pi)
	case "rename-unset":
		if len(present) == 0 {
			return Op{K: "getorcreate", A: map[string]string{"key": strconv.Itoa(pi)}}
		}
		op.A["key"] = strconv.Itoa(present[r.Intn(len(present))])
		op.A["to"] = strconv.Itoa(r.Intn(len(s.pool)))
		op.A["part"] = strconv.Itoa(r.Intn(8))
	case "rename":
		from, to := pi, r.Intn(len(s.pool))
		if !faults {
			if len(present) == 0 || len(absent) == 0 {
				return Op{K: "getorcreate", A: map[string]string{"key": strconv.Itoa(pi)}}
			}
			from = present[r.Intn(len(present))]
			to = absent[r.Intn(len(absent))]
		}
		op.A["key"] = strconv.Itoa(from)
		op.A["to"] = strconv.Itoa(to)
	}
	if len(op.A) == 0 {
		op.A = nil
	}
	return op
}

// unsetKeyPart returns a copy of key k in which one enum / union part is unset (the enum's
// zero value, a nil union); ok is false if the key has no such part.
func unsetKeyPart(k reflect.Value, which int) (reflect.Value, bool) {
	for k.Kind() == reflect.Interface && !k.IsNil() && k.Type().NumMethod() == 0 {
		k = k.Elem()
	}
	isEnum := func(t reflect.Type) bool {
		_, ok := t.MethodByName("IsYANGGoEnum")
		return ok && t.Kind() == reflect.Int64
	}
	n := reflect.New(k.Type()).Elem()
	n.Set(k)
	switch {
	case k.Kind() == reflect.Struct:
		var idx []int
		for i := 0; i < k.NumField(); i++ {
			if ft := k.Type().Field(i).Type; ft.Kind() == reflect.Interface || isEnum(ft) {
				idx = append(idx, i)
			}
		}
		if len(idx) == 0 {
			return n, false
		}
		f := n.Field(idx[which%len(idx)])
		f.Set(reflect.Zero(f.Type()))
		return n, true
	case k.Kind() == reflect.Interface || isEnum(k.Type()):
		return reflect.Zero(k.Type()), true
	}
	return n, false
}

func c34Apply(s *c34State, op Op) *Violation {
	t := s.t
	sigp := "C34:" + t.keyClass() + ":"
	pi := 0
	if ks := op.arg("key"); ks != "" {
		pi, _ = strconv.Atoi(ks)
		pi %= len(s.pool)
	}
	_, present := s.vals[pi]
	pk := s.pool[pi]
	switch op.K {
	case "new":
		m := s.method("New")
		var out []reflect.Value
		if p := callSUT(func() { out = m.Call(callArgs(m, keyArgs(pk.Key))) }); p != nil {
			return violation("C34", "panic", "C34:panic:new", "New%s(%s) panicked: %v", t.FieldName, pk.Str, p.v)
		}
		err := errOf(out[1])
		if present {
			s.st.Faults["duplicate_key"]++
			if err == nil {
				return violation("C34", "model-mismatch", sigp+"new-dup", "New%s(%s) accepted a duplicate key", t.FieldName, pk.Str)
			}
			return nil
		}
		if err != nil || out[0].IsNil() {
			return violation("C34", "model-mismatch", sigp+"new", "New%s(%s) failed for a fresh key: %v", t.FieldName, pk.Str, err)
		}
		s.vals[pi] = out[0]
		s.st.Probes["state_changes"]++
	case "getorcreate":
		m := s.method("GetOrCreate")
		var a, b reflect.Value
		if p := callSUT(func() {
			a = m.Call(callArgs(m, keyArgs(pk.Key)))[0]
			b = m.Call(callArgs(m, keyArgs(pk.Key)))[0]
		}); p != nil {
			return violation("C34", "panic", "C34:panic:getorcreate", "GetOrCreate%s(%s) panicked: %v", t.FieldName, pk.Str, p.v)
		}
		if a.IsNil() || !ptrEq(a, b) {
			return violation("C34", "model-mismatch", sigp+"getorcreate", "GetOrCreate%s(%s) is not idempotent", t.FieldName, pk.Str)
		}
		if present {
			if !ptrEq(a, s.vals[pi]) {
				return violation("C34", "model-mismatch", sigp+"getorcreate", "GetOrCreate%s(%s) replaced an existing entry", t.FieldName, pk.Str)
			}
			s.st.Probes["getorcreate_existing"]++
		} else {
			s.vals[pi] = a
			s.st.Probes["state_changes"]++
		}
	case "getorcreatemap":
		m := s.parent.MethodByName("GetOrCreate" + t.FieldName + "Map")
		if !m.IsValid() {
			return nil
		}
		var a reflect.Value
		if p := callSUT(func() { a = m.Call(nil)[0] }); p != nil {
			return violation("C34", "panic", "C34:panic:getorcreatemap", "GetOrCreate%sMap panicked: %v", t.FieldName, p.v)
		}
		if a.IsNil() || s.lm().IsNil() || a.Pointer() != s.lm().Pointer() {
			return violation("C34", "model-mismatch", sigp+"getorcreatemap", "GetOrCreate%sMap does not install/return the list map", t.FieldName)
		}
		s.held = a
	case "get":
		// exercised for every pool key by check()
	case "nilrecv-get":
		m := reflect.Zero(s.parent.Type()).MethodByName("Get" + t.FieldName)
		var g reflect.Value
		if p := callSUT(func() { g = m.Call(callArgs(m, keyArgs(pk.Key)))[0] }); p != nil {
			return violation("C34", "panic", "C34:panic:nilrecv", "Get%s on a nil receiver panicked: %v", t.FieldName, p.v)
		}
		s.st.Faults["nil_receiver"]++
		if !g.IsNil() {
			return violation("C34", "model-mismatch", sigp+"nilrecv", "Get%s on a nil receiver returned an entry", t.FieldName)
		}
	case "append", "append-nilkey":
		m := s.method("Append")
		el := reflect.ValueOf(model.Clone(pk.Proto.Interface()))
		if op.K == "append-nilkey" {
			w, _ := strconv.Atoi(op.arg("which"))
			var ptrKeys []int
			for _, n := range model.KeyNames(t.ListSch) {
				if fi, ok := model.KeyField(t.ElemType, n); ok && t.ElemType.Field(fi).Type.Kind() == reflect.Ptr {
					ptrKeys = append(ptrKeys, fi)
				}
			}
			if len(ptrKeys) == 0 {
				return nil
			}
			fi := ptrKeys[w%len(ptrKeys)]
			el.Elem().Field(fi).Set(reflect.Zero(t.ElemType.Field(fi).Type))
		}
		var out []reflect.Value
		if p := callSUT(func() { out = m.Call([]reflect.Value{el}) }); p != nil {
			return violation("C34", "panic", "C34:panic:"+op.K, "%s panicked: %v", op, p.v)
		}
		err := errOf(out[0])
		switch {
		case op.K == "append-nilkey":
			s.st.Faults["nil_key"]++
			if err == nil {
				return violation("C34", "model-mismatch", sigp+"append-nilkey", "Append%s accepted an element with a nil key leaf", t.FieldName)
			}
		case present:
			s.st.Faults["duplicate_key"]++
			if err == nil {
				return violation("C34", "model-mismatch", sigp+"append-dup", "Append%s(%s) accepted a duplicate key", t.FieldName, pk.Str)
			}
		default:
			if err != nil {
				return violation("C34", "model-mismatch", sigp+"append", "Append%s(%s) failed for a fresh key: %v", t.FieldName, pk.Str, err)
			}
			s.vals[pi] = el
			s.st.Probes["state_changes"]++
		}
	case "delete":
		m := s.method("Delete")
		if p := callSUT(func() { m.Call(callArgs(m, keyArgs(pk.Key))) }); p != nil {
			return violation("C34", "panic", "C34:panic:delete", "Delete%s(%s) panicked: %v", t.FieldName, pk.Str, p.v)
		}
		if present {
			delete(s.vals, pi)
			s.st.Probes["state_changes"]++
		} else {
			s.st.Faults["delete_absent"]++
		}
	case "rename-unset":
		// Rename to a key one of whose enum / union parts is unset (0 / nil). Whether the
		// helper refuses or obeys is its business; the list must stay a map from key tuples to
		// entries whose key leaves equal their map key: a refusal changes nothing, an accepted
		// rename is undone by renaming back.
		m := s.method("Rename")
		if !m.IsValid() || !present {
			return nil
		}
		to, _ := strconv.Atoi(op.arg("to"))
		part, _ := strconv.Atoi(op.arg("part"))
		nk, ok := unsetKeyPart(s.pool[to%len(s.pool)].Key, part)
		if !ok {
			return nil
		}
		s.st.Faults["rename_to_unset_key_part"]++
		var out []reflect.Value
		if p := callSUT(func() { out = m.Call(callArgs(m, []reflect.Value{pk.Key, nk})) }); p != nil {
			return violation("C34", "panic", "C34:panic:rename-unset", "Rename%s(%s -> key with an unset part) panicked: %v", t.FieldName, pk.Str, p.v)
		}
		if errOf(out[0]) == nil {
			var back []reflect.Value
			if p := callSUT(func() { back = m.Call(callArgs(m, []reflect.Value{nk, pk.Key})) }); p != nil {
				return violation("C34", "panic", "C34:panic:rename-unset", "Rename%s back from the key with an unset part panicked: %v", t.FieldName, p.v)
			}
			if err := errOf(back[0]); err != nil {
				return violation("C34", "model-mismatch", sigp+"rename-unset-back", "Rename%s(%s -> key with an unset part) succeeded but renaming back fails: %v", t.FieldName, pk.Str, err)
			}
		}
	case "rename":
		to, _ := strconv.Atoi(op.arg("to"))
		to %= len(s.pool)
		_, toPresent := s.vals[to]
		m := s.method("Rename")
		if !m.IsValid() {
			return nil
		}
		var out []reflect.Value
		if p := callSUT(func() { out = m.Call(callArgs(m, []reflect.Value{pk.Key, s.pool[to].Key})) }); p != nil {
			return violation("C34", "panic", "C34:panic:rename", "Rename%s(%s -> %s) panicked: %v", t.FieldName, pk.Str, s.pool[to].Str, p.v)
		}
		err := errOf(out[0])
		switch {
		case toPresent:
			s.st.Faults["rename_onto_existing"]++
			if err == nil {
				return violation("C34", "model-mismatch", sigp+"rename-existing", "Rename%s(%s -> %s) succeeded although the new key exists", t.FieldName, pk.Str, s.pool[to].Str)
			}
		case !present:
			s.st.Faults["rename_from_absent"]++
			if err == nil {
				return violation("C34", "model-mismatch", sigp+"rename-absent", "Rename%s(%s -> %s) succeeded although the old key is absent", t.FieldName, pk.Str, s.pool[to].Str)
			}
		default:
			if err != nil {
				return violation("C34", "model-mismatch", sigp+"rename", "Rename%s(%s -> %s) failed: %v", t.FieldName, pk.Str, s.pool[to].Str, err)
			}
			s.vals[to] = s.vals[pi]
			delete(s.vals, pi)
			s.st.Probes["state_changes"]++
			s.st.Probes["renames"]++
		}
	default:
		panic("C34: unknown op " + op.K)
	}
	return nil
}
