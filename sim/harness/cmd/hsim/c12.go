package main

import (
	"fmt"
	"reflect"
	"strings"

	"github.com/openconfig/ygot/verifharness/corpus"
	"github.com/openconfig/ygot/verifharness/gen"
	"github.com/openconfig/ygot/verifharness/model"
	"github.com/openconfig/ygot/ytypes"
	"verifsim/simrt"
)

// C12 — DeleteNode removes exactly the addressed subtree.
//
// A seeded history of DeleteNode calls (container, list, list-entry, leaf, leaf-list,
// ordered-list, shadow, absent and garbage paths; each sometimes repeated) runs against a
// seeded tree. The reference model is the path -> value leaf set computed by the harness's
// own walker: a delete removes every model entry at or below p and nothing else.
// Failing deletes (unaddressable or malformed paths) are the injected faults: they may
// remove data below p but must keep every leaf outside p.

func init() {
	register("C12", func() Prop {
		return &histProp{name: "C12", header: c12Header, exec: c12Exec}
	})
}

func c12Header(seed uint64, tier string) *Case {
	r := simrt.NewRng(simrt.Mix(seed, 12))
	p := pickPkg(&r)
	n := 1 + r.Intn(6)
	if tier == "thorough" {
		n = 1 + r.Intn(14)
	}
	tp := gen.SwarmParams(&r)
	return &Case{Prop: "C12", Pkg: p.Name, Seed: seed, Faults: seed%2 == 1, MapMode: int(simrt.MapRandom), MapSeed: simrt.Mix(seed, 3), TreeP: tp, NOps: n}
}

func c12Exec(c *Case, generate bool) (*Violation, *execStats) {
	st := newStats()
	s := newTreeState(c, st)
	ro := simrt.NewRng(simrt.Mix(c.Seed, 2))
	m0 := s.model()
	st.logf("pkg %s tree %s", c.Pkg, gen.Describe(m0))
	nops := c.NOps
	if !generate {
		nops = len(c.Ops)
	}
	for i := 0; i < nops; i++ {
		var op Op
		if generate {
			path, kind := drawPath(&ro, s.model())
			if !c.Faults && (kind == "garbage" || kind == "list-nokey") {
				// fault-free configuration: only paths DeleteNode is documented to handle
				path, kind = drawPath(&ro, s.model())
				if kind == "garbage" || kind == "list-nokey" {
					kind = "leaf"
					ps := s.model().Paths()
					if len(ps) == 0 {
						break
					}
					path = ps[ro.Intn(len(ps))]
				}
			}
			op = Op{K: "delete", A: map[string]string{"path": path, "kind": kind}}
			if ro.Intn(3) == 0 {
				op.A["shadow"] = "1"
			}
			if ro.Intn(3) == 0 {
				op.A["twice"] = "1"
			}
			c.Ops = append(c.Ops, op)
		} else {
			op = c.Ops[i]
		}
		st.Steps++
		if v := c12Apply(s, op); v != nil {
			st.logf("%d %s -> VIOLATION %s", i, op, v.Oracle)
			return v, st
		}
	}
	return nil, st
}

func c12Apply(s *treeState, op Op) *Violation {
	path := op.arg("path")
	pes := model.ParsePath(path)
	preferShadow := op.arg("shadow") == "1"
	var opts []ytypes.DelNodeOpt
	if preferShadow {
		opts = append(opts, &ytypes.PreferShadowPath{})
	}
	before := s.model()
	under := map[string]bool{}
	for q, l := range before.Leaves {
		if model.LeafUnder(l, pes, preferShadow) {
			under[q] = true
		}
	}
	var err error
	if p := callSUT(func() { err = ytypes.DeleteNode(s.sch, s.root, model.ToGNMI(pes), opts...) }); p != nil {
		return violation("C12", "panic", "C12:panic:delete", "DeleteNode(%s) panicked: %v\n%s", path, p.v, trimStack(p.stack))
	}
	after := s.model()
	kind := op.arg("kind") + ":" + entryContext(s, before, pes)
	if err != nil {
		s.st.Faults["failing_delete"]++
		s.st.Faults["failing_delete:"+op.arg("kind")]++
	}
	if len(under) > 0 {
		s.st.Probes["delete_with_data"]++
		s.st.Probes["state_changes"]++
	} else {
		s.st.Probes["delete_without_data"]++
	}
	s.st.Probes["path_kind:"+op.arg("kind")]++
	// frame condition: every leaf outside p keeps its value, and nothing appears
	bf, af := before.Flat(), after.Flat()
	for q, v := range bf {
		if under[q] {
			continue
		}
		if nv, ok := af[q]; !ok || nv != v {
			return violation("C12", "frame", "C12:frame:"+kind, "DeleteNode(%s) (err=%v) changed a leaf outside the path: %s was %s, now %s", path, err, q, v, orAbsent(nv, ok))
		}
	}
	for q, v := range af {
		if _, ok := bf[q]; !ok {
			return violation("C12", "frame", "C12:frame-new:"+kind, "DeleteNode(%s) created leaf %s = %s", path, q, v)
		}
	}
	if err == nil {
		// nothing at or below p survives
		for q := range under {
			if v, ok := af[q]; ok {
				return violation("C12", "not-deleted", "C12:not-deleted:"+kind, "DeleteNode(%s) returned nil but %s = %s is still set", path, q, v)
			}
		}
		// GetNode agrees
		var gopts []ytypes.GetNodeOpt
		if preferShadow {
			gopts = append(gopts, &ytypes.PreferShadowPath{})
		}
		var nodes []*ytypes.TreeNode
		var gerr error
		if p := callSUT(func() { nodes, gerr = ytypes.GetNode(s.sch, s.root, model.ToGNMI(pes), gopts...) }); p != nil {
			return violation("C12", "panic", "C12:panic:get", "GetNode(%s) after delete panicked: %v", path, p.v)
		}
		if gerr == nil && len(under) > 0 {
			for _, n := range nodes {
				if hasData(n.Data) {
					return violation("C12", "not-deleted", "C12:getnode:"+kind, "GetNode(%s) still finds data after a successful DeleteNode: %T", path, n.Data)
				}
			}
		}
		// pruning: no container or list entry on the way to p is left empty
		for cp, cv := range after.Containers {
			if cp == "/" || cv.Kind() != reflect.Ptr || cv.IsNil() {
				continue
			}
			ces := model.ParsePath(cp)
			if len(ces) < len(pes) && model.IsPrefix(ces, pes) && exactKeys(ces, pes) && cv.Elem().IsZero() {
				return violation("C12", "not-pruned", "C12:not-pruned:"+kind, "DeleteNode(%s) left the empty node %s on the way to the path", path, cp)
			}
		}
	}
	// deleting twice changes nothing more
	if op.arg("twice") == "1" {
		var err2 error
		if p := callSUT(func() { err2 = ytypes.DeleteNode(s.sch, s.root, model.ToGNMI(pes), opts...) }); p != nil {
			return violation("C12", "panic", "C12:panic:delete2", "second DeleteNode(%s) panicked: %v", path, p.v)
		}
		again := s.model()
		if d := model.DiffFlat(af, again.Flat(), 4); len(d) > 0 {
			// after a failed first delete the second may legitimately finish the job below p
			outside := false
			ag := again.Flat()
			for q, v := range af {
				if nv, ok := ag[q]; (!ok || nv != v) && !under[q] {
					outside = true
				}
			}
			for q := range ag {
				if _, ok := af[q]; !ok && !under[q] {
					outside = true
				}
			}
			if err == nil || outside {
				return violation("C12", "idempotence", "C12:idempotence:"+kind, "second DeleteNode(%s) (err=%v) changed the tree again: %v", path, err2, d)
			}
		}
		s.st.Probes["deleted_twice"]++
	}
	s.st.logf("delete %s shadow=%v kind=%s err=%v removed=%d", path, preferShadow, kind, err != nil, len(under))
	return nil
}

// exactKeys: ancestor elements must name the same entry as the path (not merely be
// covered by a keyless element of it).
func exactKeys(anc, p []model.Elem) bool {
	for i := range anc {
		if len(anc[i].Keys) != len(p[i].Keys) {
			return false
		}
	}
	return true
}

func orAbsent(v string, ok bool) string {
	if !ok {
		return "<absent>"
	}
	return v
}

func hasData(d interface{}) bool {
	if d == nil {
		return false
	}
	v := reflect.ValueOf(d)
	switch v.Kind() {
	case reflect.Ptr, reflect.Map, reflect.Slice, reflect.Interface:
		if v.IsNil() {
			return false
		}
		if v.Kind() == reflect.Ptr && v.Elem().Kind() == reflect.Struct {
			return !v.Elem().IsZero()
		}
		if v.Kind() == reflect.Map || v.Kind() == reflect.Slice {
			return v.Len() > 0
		}
		return true
	case reflect.Int64:
		return v.Int() != 0
	case reflect.Bool:
		return v.Bool()
	}
	return !v.IsZero()
}

func trimStack(s string) string {
	lines := strings.Split(s, "\n")
	var keep []string
	for _, l := range lines {
		if strings.Contains(l, "/ygot/") || strings.Contains(l, "/ytypes/") || strings.Contains(l, "/util/") {
			keep = append(keep, strings.TrimSpace(l))
		}
		if len(keep) >= 6 {
			break
		}
	}
	return fmt.Sprint(keep)
}

// entryContext describes the deepest list entry a path goes through: the Go class of its
// key and whether the entry's own key leaves are (still) set. It makes violation
// signatures specific enough that two different defects do not share one.
func entryContext(s *treeState, m *model.Model, pes []model.Elem) string {
	for n := len(pes); n >= 1; n-- {
		if len(pes[n-1].Keys) == 0 {
			continue
		}
		ep := model.FormatPath(pes[:n])
		cv, ok := m.Containers[ep]
		if !ok {
			return "entry-absent"
		}
		lsch := schemaAt(s, pes[:n])
		names := model.KeyNames(lsch)
		cls := "multikey"
		if len(names) == 1 {
			cls = "key"
			if fi, ok := model.KeyField(cv.Elem().Type(), names[0]); ok {
				ft := cv.Elem().Type().Field(fi).Type
				cls = ft.Kind().String() + "key"
				if _, isEnum := ft.MethodByName("IsYANGGoEnum"); isEnum {
					cls = "enumkey"
				}
				if ft.Kind() == reflect.Ptr {
					cls = ft.Elem().Kind().String() + "key"
				}
			}
		}
		if _, ok := model.EntryKeyStrings(cv.Elem(), names); !ok {
			return cls + ":keyleaf-unset"
		}
		return cls
	}
	return "nolist"
}

// schemaAt walks the schema along data-tree element names.
func schemaAt(s *treeState, pes []model.Elem) *corpus.Entry {
	cur := s.sch
	for _, e := range pes {
		cur = model.Child(cur, e.Name)
		if cur == nil {
			return nil
		}
	}
	return cur
}
