package main

import (
	"encoding/json"
	"fmt"
	"runtime/debug"
	"sort"
	"strings"

	"github.com/openconfig/ygot/verifharness/gen"
	"verifsim/simrt"
)

// Op is one operation of a recorded history. Arguments are strings so that a replay
// file is readable and independent of generator code.
type Op struct {
	K string            `json:"k"`
	A map[string]string `json:"a,omitempty"`
}

func (o Op) String() string {
	if len(o.A) == 0 {
		return o.K
	}
	ks := make([]string, 0, len(o.A))
	for k := range o.A {
		ks = append(ks, k)
	}
	sort.Strings(ks)
	var b strings.Builder
	b.WriteString(o.K + "(")
	for i, k := range ks {
		if i > 0 {
			b.WriteString(",")
		}
		b.WriteString(k + "=" + o.A[k])
	}
	b.WriteString(")")
	return b.String()
}

func (o Op) arg(k string) string { return o.A[k] }

// Case is a replayable history: the seed fixes the initial state and the value pools,
// Ops are the concrete operations.
type Case struct {
	Prop    string     `json:"property"`
	Pkg     string     `json:"pkg"`
	Seed    uint64     `json:"seed"`
	Target  string     `json:"target,omitempty"`
	Faults  bool       `json:"faults"` // fault-injecting configuration (rejected / failing operations allowed)
	MapMode int        `json:"map_mode"`
	MapSeed uint64     `json:"map_seed"`
	TreeP   gen.Params `json:"tree_params"`
	NOps    int        `json:"n_ops,omitempty"`
	Ops     []Op       `json:"ops"`
	Notes   []string   `json:"notes,omitempty"`
}

func (c *Case) clone() *Case {
	n := *c
	n.Ops = append([]Op{}, c.Ops...)
	n.Notes = nil
	return &n
}

// stats collected by one execution.
type execStats struct {
	Faults map[string]int
	Probes map[string]int
	Steps  int64
	Trace  []string // op-by-op log (also the event log whose hash is compared across processes)
}

func newStats() *execStats {
	return &execStats{Faults: map[string]int{}, Probes: map[string]int{}}
}

func (s *execStats) logf(f string, a ...any) {
	s.Trace = append(s.Trace, fmt.Sprintf(f, a...))
}

func hashLines(lines []string) string {
	h := uint64(14695981039346656037)
	for _, l := range lines {
		for i := 0; i < len(l); i++ {
			h ^= uint64(l[i])
			h *= 1099511628211
		}
		h ^= 0xa
		h *= 1099511628211
	}
	return fmt.Sprintf("%016x", h)
}

// sutPanic is the error produced when the system under test panics inside a call.
type sutPanic struct {
	v     any
	stack string
}

func (p *sutPanic) Error() string { return fmt.Sprintf("panic: %v", p.v) }

// callSUT runs f and converts a panic into *sutPanic.
func callSUT(f func()) (perr *sutPanic) {
	defer func() {
		if p := recover(); p != nil {
			perr = &sutPanic{v: p, stack: string(debug.Stack())}
		}
	}()
	f()
	return nil
}

// minimise shrinks the operation list of a failing case by delta debugging: it keeps a
// candidate only if `fails` says the same violation class persists.
func minimise(c *Case, fails func(*Case) bool) *Case {
	best := c.clone()
	n := 2
	for len(best.Ops) >= 1 {
		chunk := (len(best.Ops) + n - 1) / n
		reduced := false
		for start := 0; start < len(best.Ops); start += chunk {
			end := start + chunk
			if end > len(best.Ops) {
				end = len(best.Ops)
			}
			cand := best.clone()
			cand.Ops = append(append([]Op{}, best.Ops[:start]...), best.Ops[end:]...)
			if fails(cand) {
				best = cand
				if n > 2 {
					n--
				}
				reduced = true
				break
			}
		}
		if !reduced {
			if chunk <= 1 {
				break
			}
			n *= 2
			if n > len(best.Ops) {
				n = len(best.Ops)
			}
		}
	}
	return best
}

func mustJSON(v any) json.RawMessage {
	b, err := json.Marshal(v)
	if err != nil {
		panic(err)
	}
	return b
}

// histProp is the common shape of the operation-history properties.
type histProp struct {
	name string
	// gen builds the case header (everything except Ops) from a seed.
	header func(seed uint64, tier string) *Case
	// exec runs the case; with generate=true it draws the operations (appending to c.Ops),
	// otherwise it follows c.Ops.
	exec func(c *Case, generate bool) (*Violation, *execStats)
	// execRaw is the property's own exec once exec has been wrapped by execFresh
	execRaw func(c *Case, generate bool) (*Violation, *execStats)
}

var minimisedSigs = map[string]bool{}

// execFresh executes a case the way a fresh process would: package-level state of ygot's
// runtime packages is re-initialised first (simulated process restart, see simrt.ResetGlobals),
// so that nothing an earlier run of this worker left behind - a cache, a pool, a scratch
// buffer - can take part, and a violation reproduces from its recorded history alone. The
// garbage collector is held off while the case runs (and the process has one P): whether a
// sync.Pool still holds what was put into it depends on both.
func (h *histProp) execFresh(c *Case, generate bool) (*Violation, *execStats) {
	simrt.ResetGlobals()
	old := debug.SetGCPercent(-1)
	defer debug.SetGCPercent(old)
	return h.execRaw(c, generate)
}

func (h *histProp) Run(seed uint64, tier string) *Result {
	if h.execRaw == nil {
		h.execRaw = h.exec
		h.exec = h.execFresh
	}
	c := h.header(seed, tier)
	v, st := h.exec(c, true)
	res := &Result{Seed: seed, Pkg: c.Pkg, Faults: st.Faults, Probes: st.Probes, Steps: st.Steps, LogHash: hashLines(st.Trace)}
	// the map-order decisions of the run itself (re-executions for reproduction and
	// minimisation below add their own and happen once per signature and process)
	res.Extra = map[string]any{"map_events": simrt.Main().MapEvents, "map_hash": fmt.Sprintf("%016x", simrt.Main().Hash)}
	ops := make([]string, len(c.Ops))
	kinds := map[string]bool{}
	for i, o := range c.Ops {
		ops[i] = o.String()
		kinds[o.K] = true
	}
	res.Fp = hashLines(append([]string{c.Pkg, c.Target}, st.Trace...))
	res.Nontrivial = st.Probes["state_changes"] > 0
	res.Sample = map[string]any{"pkg": c.Pkg, "target": c.Target, "faults": c.Faults, "ops": ops, "trace_tail": tail(st.Trace, 6)}
	if v != nil && minimisedSigs[v.Signature] {
		// this process has already reproduced and minimised a case with this signature (the
		// driver files one replay per signature): report the recorded history as it is
		res.Violation = v
		res.Case = c
		return res
	}
	if v != nil {
		minimisedSigs[v.Signature] = true
		// re-check that the recorded case reproduces, then shrink it
		v2, _ := h.exec(c.clone(), false)
		if v2 == nil || v2.Signature != v.Signature {
			res.Internal = fmt.Sprintf("violation %q did not reproduce from its own recorded history (replay gave %v)", v.Oracle, v2)
			return res
		}
		min := minimise(c, func(cand *Case) bool {
			vv, _ := h.exec(cand.clone(), false)
			return vv != nil && vv.Signature == v.Signature
		})
		vm, stm := h.exec(min.clone(), false)
		if vm != nil {
			v = vm
			min.Notes = tail(stm.Trace, 12)
		}
		res.Violation = v
		res.Case = min
	}
	return res
}

func (h *histProp) Replay(raw json.RawMessage) *Result {
	if h.execRaw == nil {
		h.execRaw = h.exec
		h.exec = h.execFresh
	}
	var c Case
	if err := json.Unmarshal(raw, &c); err != nil {
		return &Result{Internal: "bad case: " + err.Error()}
	}
	v, st := h.exec(&c, false)
	res := &Result{Seed: c.Seed, Pkg: c.Pkg, Faults: st.Faults, Probes: st.Probes, Steps: st.Steps, LogHash: hashLines(st.Trace), Violation: v}
	res.Sample = map[string]any{"trace": st.Trace}
	if v != nil {
		res.Case = &c
	}
	return res
}

func tail(s []string, n int) []string {
	if len(s) <= n {
		return s
	}
	return s[len(s)-n:]
}

func violation(prop, oracle, sig, f string, a ...any) *Violation {
	return &Violation{Prop: prop, Oracle: oracle, Signature: sig, Msg: fmt.Sprintf(f, a...)}
}
