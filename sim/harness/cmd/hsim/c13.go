package main

import (
	"encoding/json"
	"fmt"
	"reflect"
	"sort"
	"strconv"
	"strings"

	gpb "github.com/openconfig/gnmi/proto/gnmi"
	"github.com/openconfig/ygot/verifharness/gen"
	"github.com/openconfig/ygot/verifharness/model"
	"github.com/openconfig/ygot/ygot"
	"github.com/openconfig/ygot/ytypes"
	"google.golang.org/protobuf/encoding/protojson"
	"verifsim/simrt"
)

// C13 — UnmarshalSetRequest implements gNMI Set semantics.
//
// A seeded history of SetRequests (prefix, deletes, replaces, updates; leaf, container,
// list-entry and ordered-list targets; scalar and JSON-IETF payloads) and atomic
// Notifications is applied to a seeded tree. Every request is generated MODEL FIRST: the
// generator decides the effects (delete this subtree; write these leaf assignments; append
// these ordered-list entries) and encodes them with the harness's own encoders; the oracle
// applies the recorded effects to the path -> value model in gNMI order and compares with
// the tree. Requests carrying one ill-typed update are the injected faults: they must
// fail, and (no rollback being promised) the model is re-read from the tree afterwards.

func init() {
	register("C13", func() Prop {
		return &histProp{name: "C13", header: c13Header, exec: c13Exec}
	})
}

func c13Header(seed uint64, tier string) *Case {
	r := simrt.NewRng(simrt.Mix(seed, 13))
	p := pickPkg(&r)
	n := 1 + r.Intn(4)
	if tier == "thorough" {
		n = 1 + r.Intn(10)
	}
	tp := gen.SwarmParams(&r)
	return &Case{Prop: "C13", Pkg: p.Name, Seed: seed, Faults: seed%2 == 1, MapMode: int(simrt.MapRandom), MapSeed: simrt.Mix(seed, 3), TreeP: tp, NOps: n}
}

// effect is one step of the reference semantics.
type effect struct {
	Kind     string              `json:"kind"` // "delete" | "replace" | "update"
	Del      string              `json:"del,omitempty"`
	Put      map[string]string   `json:"put,omitempty"`
	PutOrder map[string][]string `json:"put_order,omitempty"` // ordered-list path -> entry keys in arrival order
	Target   string              `json:"target,omitempty"`    // what kind of node the step addresses (for probes)
	// Clear lists leaf-lists the payload mentions as empty arrays: they end up without elements
	Clear []string `json:"clear,omitempty"`
}

// refModel is the path -> value reference model plus ordered-list order.
type refModel struct {
	leaves map[string]string
	order  map[string][]string
}

func refFrom(m *model.Model) *refModel {
	r := &refModel{leaves: m.Flat(), order: map[string][]string{}}
	for lp, ks := range m.ListKeys {
		if m.Ordered[lp] && len(ks) > 0 {
			r.order[lp] = append([]string{}, ks...)
		}
	}
	return r
}

func (r *refModel) apply(e effect) {
	if e.Del != "" {
		pes := model.ParsePath(e.Del)
		for q := range r.leaves {
			if model.IsPrefix(pes, model.ParsePath(q)) {
				delete(r.leaves, q)
			}
		}
		for lp, ks := range r.order {
			var keep []string
			for _, k := range ks {
				if !model.IsPrefix(pes, model.ParsePath(lp+k)) {
					keep = append(keep, k)
				}
			}
			if len(keep) == 0 {
				delete(r.order, lp)
			} else {
				r.order[lp] = keep
			}
		}
	}
	for _, q := range e.Clear {
		delete(r.leaves, q)
	}
	for q, v := range e.Put {
		r.leaves[q] = v
	}
	for _, lp := range model.SortedKeys(e.PutOrder) {
		for _, k := range e.PutOrder[lp] {
			found := false
			for _, x := range r.order[lp] {
				if x == k {
					found = true
				}
			}
			if !found {
				r.order[lp] = append(r.order[lp], k)
			}
		}
	}
}

// untag strips the type tag of a rendered scalar: key leaves are named by strings in a
// path, so a key leaf is compared by its key-string form (a union key "7" may legally be
// stored as the string or the numeric member by a decoder that does not check patterns).
func untag(v string) string {
	if i := strings.Index(v, ":"); i >= 0 {
		v = v[i+1:]
	}
	if len(v) >= 2 && v[0] == '"' {
		if u, err := strconv.Unquote(v); err == nil {
			return u
		}
	}
	return v
}

func (r *refModel) compare(m *model.Model) []string {
	want := map[string]string{}
	for q, v := range r.leaves {
		want[q] = v
		if l, ok := m.Leaves[q]; ok && l.Key && l.Val != v && untag(l.Val) == untag(v) && !gen.UnrestrictedStringFirst(gen.EffType(l.Schema)) {
			want[q] = l.Val
		}
	}
	d := model.DiffFlat(want, m.Flat(), 6)
	got := map[string][]string{}
	for lp, ks := range m.ListKeys {
		if m.Ordered[lp] && len(ks) > 0 {
			got[lp] = ks
		}
	}
	lps := map[string]bool{}
	for lp := range got {
		lps[lp] = true
	}
	for lp := range r.order {
		lps[lp] = true
	}
	for _, lp := range model.SortedKeys(lps) {
		if fmt.Sprint(got[lp]) != fmt.Sprint(r.order[lp]) {
			d = append(d, fmt.Sprintf("order %s: reference %v, tree %v", lp, r.order[lp], got[lp]))
		}
	}
	return d
}

func c13Exec(c *Case, generate bool) (*Violation, *execStats) {
	st := newStats()
	s := newTreeState(c, st)
	ro := simrt.NewRng(simrt.Mix(c.Seed, 2))
	rv := simrt.NewRng(simrt.Mix(c.Seed, 4))
	pp := c.TreeP
	pp.MaxList = 2
	vg := gen.New(&rv, pp)
	st.logf("pkg %s tree %s", c.Pkg, gen.Describe(s.model()))
	if c.Seed%3 == 0 {
		// equal-valued scalar leaves share one pointer (content unchanged): a writer must
		// store a new pointer, never write through the old one
		ra := simrt.NewRng(simrt.Mix(c.Seed, 6))
		if model.AliasLeafPointers(s.root, func() bool { return ra.Intn(2) == 0 }) > 0 {
			st.Probes["tree_with_shared_leaf_pointers"]++
		}
	}
	schema := &ytypes.Schema{Root: s.root, SchemaTree: s.p.Schema().SchemaTree, Unmarshal: s.p.Unmarshal}
	nops := c.NOps
	if !generate {
		nops = len(c.Ops)
	}
	for i := 0; i < nops; i++ {
		var op Op
		if generate {
			o, ok := c13Draw(&ro, vg, s, c.Faults)
			if !ok {
				continue
			}
			op = o
			c.Ops = append(c.Ops, op)
		} else {
			op = c.Ops[i]
		}
		st.Steps++
		if v := c13Apply(s, schema, op); v != nil {
			st.logf("%d %s -> VIOLATION %s", i, op.K, v.Oracle)
			return v, st
		}
	}
	return nil, st
}

// payloadFor generates a subtree for a struct target and returns (json, leaves, order).
// emptiedLeafLists turns some unset leaf-list fields of the payload's top struct into allocated
// empty ones (rendered as "[]") and returns their data-tree paths.
func emptiedLeafLists(vg *gen.G, payload reflect.Value, base string) []string {
	var out []string
	s := payload.Elem()
	t := s.Type()
	for i := 0; i < t.NumField(); i++ {
		sf := t.Field(i)
		if model.Classify(sf) != model.FLeafList || !s.Field(i).IsNil() || vg.R.Intn(3) != 0 {
			continue
		}
		s.Field(i).Set(reflect.MakeSlice(sf.Type, 0, 0))
		out = append(out, model.FieldPaths(sf, base)...)
	}
	return out
}

func payloadFor(vg *gen.G, lt *leafTarget, base string, merge bool) (reflect.Value, map[string]string, map[string][]string) {
	// ygot documents that `ordered-by user` lists are unmarshalled as a whole: a merge
	// (update) payload therefore carries no ordered-list entries; replace payloads may.
	save := vg.P
	vg.P.NoOrdered = merge
	// in a package generated with wrapper unions, a list keyed by a union is keyed by pointer
	// identity: a JSON list merged into it cannot find its existing entries, which is the
	// known limitation simple unions exist to avoid, not gNMI Set semantics
	vg.P.NoPointerKeyed = lt.Pkg != nil && lt.Pkg.HasTag("wrapperunion")
	defer func() { vg.P = save }()
	payload := reflect.New(lt.StructT)
	if lt.LastIsEntry && lt.KeySrc.IsValid() {
		for _, n := range model.KeyNames(lt.StructSch) {
			if fi, ok := model.KeyField(lt.StructT, n); ok {
				payload.Elem().Field(fi).Set(reflect.ValueOf(model.Clone(lt.KeySrc.Elem().Field(fi).Addr().Interface())).Elem())
			}
		}
	}
	vg.Fill(payload.Elem(), lt.StructSch, 2)
	if lt.LastIsEntry {
		gen.MirrorKeys(payload.Elem(), model.KeyNames(lt.StructSch))
	}
	m := model.Walk(payload.Interface(), lt.StructSch, base)
	order := map[string][]string{}
	for lp, ks := range m.ListKeys {
		if m.Ordered[lp] && len(ks) > 0 {
			order[lp] = ks
		}
	}
	return payload, m.Flat(), order
}

func mergeInto(dst map[string]string, src map[string]string) {
	for k, v := range src {
		dst[k] = v
	}
}

func c13Draw(r *simrt.Rng, vg *gen.G, s *treeState, faults bool) (Op, bool) {
	if r.Intn(5) == 0 {
		return c13DrawAtomic(r, vg, s)
	}
	var effs []effect
	var dels []string
	type upd = c13upd
	var reps, upds []upd
	// struct targets of the updates drawn so far (index into upds -> target), so that one of
	// them can be written a second time with another payload
	structTargets := map[int]*leafTarget{}
	ndel, nrep, nupd := r.Intn(3), r.Intn(3), r.Intn(4)
	if ndel+nrep+nupd == 0 {
		nupd = 1
	}
	m := s.model()
	for i := 0; i < ndel; i++ {
		path, kind := c13DeletePath(r, m)
		if path == "" {
			continue
		}
		dels = append(dels, path)
		effs = append(effs, effect{Kind: "delete", Del: path, Target: kind})
	}
	var lastStructTarget *leafTarget
	mk := func(kind string) (upd, effect, bool) {
		structTarget := r.Intn(2) == 0
		var lt *leafTarget
		for try := 0; try < 8; try++ {
			lt = descend(r, s, structTarget)
			if lt != nil && !(lt.StructT == nil && lt.IsKeyLeaf) {
				break
			}
			lt = nil
		}
		if structTarget && r.Intn(14) == 0 {
			// the root itself: an update (or replace) with an empty path and a payload for the whole tree
			lt = &leafTarget{KeyLeaves: map[string]string{}, Pkg: s.p, StructT: reflect.TypeOf(s.root).Elem(), StructSch: s.sch}
		}
		if lt == nil {
			return upd{}, effect{}, false
		}
		path := model.FormatPath(lt.Elems)
		e := effect{Kind: kind, Put: map[string]string{}, PutOrder: map[string][]string{}}
		if kind == "replace" {
			e.Del = path
		}
		mergeInto(e.Put, lt.KeyLeaves)
		for _, o := range lt.OrderedOn {
			e.PutOrder[o[0]] = append(e.PutOrder[o[0]], o[1])
		}
		if lt.StructT != nil {
			base := path
			if len(lt.Elems) == 0 {
				base = ""
			}
			payload, leaves, order := payloadFor(vg, lt, base, kind == "update")
			e.Clear = emptiedLeafLists(vg, payload, base)
			mergeInto(e.Put, leaves)
			for lp, ks := range order {
				e.PutOrder[lp] = append(e.PutOrder[lp], ks...)
			}
			b, err := json.Marshal(model.TreeJSON(payload))
			if err != nil {
				return upd{}, effect{}, false
			}
			e.Target = "container"
			if len(lt.Elems) == 0 {
				e.Target = "root"
			}
			if lt.LastIsEntry {
				e.Target = "list-entry"
				if lt.InOrdered && len(lt.OrderedOn) > 0 && strings.HasPrefix(path, lt.OrderedOn[len(lt.OrderedOn)-1][0]+"[") && model.FormatPath(lt.Elems) == lt.OrderedOn[len(lt.OrderedOn)-1][0]+lt.OrderedOn[len(lt.OrderedOn)-1][1] {
					e.Target = "ordered-list-entry"
				}
			}
			lastStructTarget = lt
			return upd{path, model.JSONTV(b)}, e, true
		}
		lastStructTarget = nil
		parent := reflect.New(lt.Parent)
		val, ok := vg.LeafValue(parent, lt.Field.Type, lt.Sch)
		if !ok {
			return upd{}, effect{}, false
		}
		var tv *gpb.TypedValue
		if r.Intn(3) == 0 || yangKindName(lt.Sch) == "empty" {
			b, ok := model.LeafJSON(val)
			if !ok {
				return upd{}, effect{}, false
			}
			tv = model.JSONTV(b)
		} else if tv, ok = model.LeafTV(val); !ok {
			return upd{}, effect{}, false
		}
		e.Put[path] = model.Render(val)
		e.Target = "leaf"
		if lt.Field.Type.Kind() == reflect.Slice && lt.Field.Type.Name() != "Binary" {
			e.Target = "leaf-list"
		}
		return upd{path, tv}, e, true
	}
	for i := 0; i < nrep; i++ {
		if u, e, ok := mk("replace"); ok {
			reps = append(reps, u)
			effs = append(effs, e)
		}
	}
	for i := 0; i < nupd; i++ {
		if u, e, ok := mk("update"); ok {
			upds = append(upds, u)
			effs = append(effs, e)
			if lastStructTarget != nil {
				structTargets[len(upds)-1] = lastStructTarget
			}
		}
	}
	// the same container / list entry may be updated twice in one message with different
	// JSON payloads: an update merges, so what only the first payload sets must survive the second
	if len(structTargets) > 0 && r.Intn(3) == 0 {
		idxs := make([]int, 0, len(structTargets))
		for i := range structTargets {
			idxs = append(idxs, i)
		}
		sort.Ints(idxs)
		i := idxs[r.Intn(len(idxs))]
		lt := structTargets[i]
		path := upds[i].path
		base := path
		if len(lt.Elems) == 0 {
			base = ""
		}
		payload, leaves, order := payloadFor(vg, lt, base, true)
		if b, err := json.Marshal(model.TreeJSON(payload)); err == nil {
			nu := len(effs) - len(upds)
			e := effect{Kind: "update", Put: map[string]string{}, PutOrder: map[string][]string{}, Target: effs[nu+i].Target}
			mergeInto(e.Put, lt.KeyLeaves)
			mergeInto(e.Put, leaves)
			for _, o := range lt.OrderedOn {
				e.PutOrder[o[0]] = append(e.PutOrder[o[0]], o[1])
			}
			for lp, ks := range order {
				e.PutOrder[lp] = append(e.PutOrder[lp], ks...)
			}
			upds = append(upds, upd{path, model.JSONTV(b)})
			effs = append(effs, e)
		}
	}
	// a message may write the same path more than once (telemetry batches do): repeat one
	// of the scalar updates at the end, so that something else lies between the two writes
	if len(upds) >= 2 && r.Intn(3) == 0 {
		nu := len(effs) - len(upds)
		var idx []int
		for i := 0; i < len(upds)-1; i++ {
			if t := effs[nu+i].Target; t == "leaf" || t == "leaf-list" {
				idx = append(idx, i)
			}
		}
		if len(idx) > 0 {
			i := idx[r.Intn(len(idx))]
			upds = append(upds, upds[i])
			effs = append(effs, effs[nu+i])
		}
	}
	if len(dels)+len(reps)+len(upds) == 0 {
		return Op{}, false
	}
	op := Op{K: "setreq", A: map[string]string{}}
	if faults && r.Intn(3) == 0 && len(reps)+len(upds) > 0 {
		// corrupt one update: a payload no schema node accepts
		bad := &gpb.TypedValue{Value: &gpb.TypedValue_JsonIetfVal{JsonIetfVal: []byte(`{"no-such-node": 1}`)}}
		all := append(append([]*c13upd{}, ptrs(reps)...), ptrs(upds)...)
		u := all[r.Intn(len(all))]
		if _, isJSON := u.tv.GetValue().(*gpb.TypedValue_JsonIetfVal); !isJSON || !strings.HasPrefix(string(u.tv.GetJsonIetfVal()), "{") {
			bad = &gpb.TypedValue{Value: &gpb.TypedValue_JsonIetfVal{JsonIetfVal: []byte(`{"x":`)}}
		}
		u.tv = bad
		op.A["bad"] = "1"
		if strings.HasPrefix(string(bad.GetJsonIetfVal()), `{"x":`) {
			op.A["badkind"] = "malformed"
		} else {
			op.A["badkind"] = "unknown-member"
		}
	}
	// options of the call: IgnoreExtraFields changes nothing for a request without unknown
	// members (and cannot rescue a malformed payload); it must also not outlive the call
	if op.A["badkind"] != "unknown-member" && r.Intn(4) == 0 {
		op.A["opt"] = "ignore-extra"
	}
	// common prefix
	var all []string
	all = append(all, dels...)
	for _, u := range reps {
		all = append(all, u.path)
	}
	for _, u := range upds {
		all = append(all, u.path)
	}
	common := model.ParsePath(all[0])
	for _, p := range all[1:] {
		es := model.ParsePath(p)
		n := 0
		for n < len(common) && n < len(es) && common[n].Name == es[n].Name && model.FormatKeys(common[n].Keys) == model.FormatKeys(es[n].Keys) {
			n++
		}
		common = common[:n]
	}
	plen := 0
	if len(common) > 0 && r.Intn(2) == 0 {
		plen = 1 + r.Intn(len(common))
		// a path may not become empty unless it is a delete/replace of the prefix itself; keep it simple
		for _, p := range all {
			if len(model.ParsePath(p)) <= plen {
				plen = len(model.ParsePath(p)) - 1
			}
		}
		if plen < 0 {
			plen = 0
		}
	}
	req := &gpb.SetRequest{}
	if plen > 0 {
		req.Prefix = model.ToGNMI(common[:plen])
	}
	strip := func(p string) *gpb.Path { return model.ToGNMI(model.ParsePath(p)[plen:]) }
	for _, d := range dels {
		req.Delete = append(req.Delete, strip(d))
	}
	for _, u := range reps {
		req.Replace = append(req.Replace, &gpb.Update{Path: strip(u.path), Val: u.tv})
	}
	for _, u := range upds {
		req.Update = append(req.Update, &gpb.Update{Path: strip(u.path), Val: u.tv})
	}
	if faults && op.A["bad"] == "" && r.Intn(8) == 0 {
		// prefix and one path name different targets (or origins): the request addresses two
		// different devices (or schemas) at once and cannot be applied. The prefix may be one
		// without elements - it is a prefix all the same.
		var first *gpb.Path
		switch {
		case len(req.Delete) > 0:
			first = req.Delete[0]
		case len(req.Replace) > 0:
			first = req.Replace[0].Path
		default:
			first = req.Update[0].Path
		}
		if req.Prefix == nil {
			req.Prefix = &gpb.Path{}
		}
		if r.Intn(2) == 0 {
			req.Prefix.Target, first.Target = "dut1", "dut2"
		} else {
			req.Prefix.Origin, first.Origin = "openconfig", "vendor-x"
		}
		op.A["bad"] = "1"
		op.A["badkind"] = "prefix-mismatch"
	}
	b, err := protojson.Marshal(req)
	if err != nil {
		return Op{}, false
	}
	op.A["req"] = string(b)
	eb, _ := json.Marshal(effs)
	op.A["eff"] = string(eb)
	return op, true
}

type c13upd struct {
	path string
	tv   *gpb.TypedValue
}

func ptrs(us []c13upd) []*c13upd {
	out := make([]*c13upd, len(us))
	for i := range us {
		out[i] = &us[i]
	}
	return out
}

// c13DeletePath picks a delete path that ygot's structs can address: an existing leaf, an
// existing container or list entry, or an unset sibling leaf. (Nodes that path compression
// removes, such as /system/config in a compressed schema, have no struct to address and
// are rejected by DeleteNode; they are outside the domain and said so in the evidence.)
func c13DeletePath(r *simrt.Rng, m *model.Model) (string, string) {
	for try := 0; try < 8; try++ {
		switch x := r.Intn(10); {
		case x < 4:
			ps := m.Paths()
			if len(ps) == 0 {
				continue
			}
			l := m.Leaves[ps[r.Intn(len(ps))]]
			if l.Key {
				continue
			}
			return l.Path, "leaf"
		case x < 8:
			cs := model.SortedKeys(m.Containers)
			var cand []string
			for _, c := range cs {
				if c != "/" && !strings.Contains(c, "#") {
					cand = append(cand, c)
				}
			}
			if len(cand) == 0 {
				continue
			}
			return cand[r.Intn(len(cand))], "interior"
		default:
			path, kind := drawPath(r, m)
			if kind != "absent-sibling" {
				continue
			}
			if l, ok := leafAt(m, path); ok && l.Key {
				continue
			}
			return path, kind
		}
	}
	return "", ""
}

func leafAt(m *model.Model, path string) (*model.Leaf, bool) {
	want := model.FormatPath(model.ParsePath(path))
	for _, l := range m.Leaves {
		for _, a := range l.Addressable(false) {
			if a == want {
				return l, true
			}
		}
	}
	return nil, false
}

// c13DrawAtomic builds an atomic Notification: everything under the prefix is replaced by
// the leaf updates it carries.
func c13DrawAtomic(r *simrt.Rng, vg *gen.G, s *treeState) (Op, bool) {
	var lt *leafTarget
	for try := 0; try < 8 && lt == nil; try++ {
		lt = descend(r, s, true)
	}
	if lt == nil || lt.StructT == nil {
		return Op{}, false
	}
	path := model.FormatPath(lt.Elems)
	payload, _, _ := payloadFor(vg, lt, path, false)
	m := model.Walk(payload.Interface(), lt.StructSch, path)
	e := effect{Kind: "replace", Del: path, Put: map[string]string{}, PutOrder: map[string][]string{}, Target: "atomic"}
	n := &gpb.Notification{Atomic: true, Prefix: model.ToGNMI(lt.Elems), Timestamp: 1}
	plen := len(lt.Elems)
	// one atomic notification in six carries no update at all: the subtree at its prefix is
	// replaced by nothing
	emptyAtomic := r.Intn(6) == 0
	for _, q := range m.Paths() {
		if emptyAtomic {
			break
		}
		l := m.Leaves[q]
		if yangKindName(l.Schema) == "empty" {
			continue // scalar TypedValues cannot carry the empty type
		}
		tv, ok := model.LeafTV(l.Field)
		if !ok {
			continue
		}
		n.Update = append(n.Update, &gpb.Update{Path: model.ToGNMI(model.ParsePath(q)[plen:]), Val: tv})
		e.Put[q] = l.Val
		// ordered entries arrive in update order
		qes := model.ParsePath(q)
		for i := range qes {
			if len(qes[i].Keys) == 0 {
				continue
			}
			lp := model.FormatPath(append(append([]model.Elem{}, qes[:i]...), model.Elem{Name: qes[i].Name}))
			if m.Ordered[lp] {
				k := model.FormatKeys(qes[i].Keys)
				dup := false
				for _, x := range e.PutOrder[lp] {
					if x == k {
						dup = true
					}
				}
				if !dup {
					e.PutOrder[lp] = append(e.PutOrder[lp], k)
				}
			}
		}
	}
	if len(n.Update) > 0 {
		// entries on the way to the prefix come into being only if something is written below them
		mergeInto(e.Put, lt.KeyLeaves)
		for _, o := range lt.OrderedOn {
			found := false
			for _, x := range e.PutOrder[o[0]] {
				if x == o[1] {
					found = true
				}
			}
			if !found {
				e.PutOrder[o[0]] = append([]string{o[1]}, e.PutOrder[o[0]]...)
			}
		}
	}
	b, err := protojson.Marshal(n)
	if err != nil {
		return Op{}, false
	}
	eb, _ := json.Marshal([]effect{e})
	return Op{K: "atomic", A: map[string]string{"notif": string(b), "eff": string(eb)}}, true
}

func c13Apply(s *treeState, schema *ytypes.Schema, op Op) *Violation {
	var effs []effect
	if err := json.Unmarshal([]byte(op.arg("eff")), &effs); err != nil {
		panic("C13: bad recorded effects: " + err.Error())
	}
	// gNMI order: all deletes, then replaces, then updates (the recorded list is already in that order)
	sort.SliceStable(effs, func(a, b int) bool { return rank(effs[a].Kind) < rank(effs[b].Kind) })
	before := s.model()
	ref := refFrom(before)
	for _, e := range effs {
		ref.apply(e)
	}
	var err error
	var desc string
	switch op.K {
	case "setreq":
		req := &gpb.SetRequest{}
		if uerr := protojson.Unmarshal([]byte(op.arg("req")), req); uerr != nil {
			panic("C13: bad recorded request: " + uerr.Error())
		}
		desc = fmt.Sprintf("SetRequest{prefix=%s deletes=%d replaces=%d updates=%d}", model.FromGNMI(nil, req.Prefix), len(req.Delete), len(req.Replace), len(req.Update))
		var sopts []ytypes.UnmarshalOpt
		if op.arg("opt") == "ignore-extra" {
			sopts = append(sopts, &ytypes.IgnoreExtraFields{})
			s.st.Probes["request_with_ignore_extra_fields"]++
		}
		if op.arg("opt") == "ignore-extra" {
			// IgnoreExtraFields concerns unknown members only, and this request has none: on two
			// copies of the tree the request must have the same outcome with and without it,
			// whatever other option accompanies it (PreferShadowPath here: options travel together
			// from the call down to every payload)
			var res [2]string
			for i := range res {
				cp := model.Clone(s.root).(ygot.GoStruct)
				sc := &ytypes.Schema{Root: cp, SchemaTree: schema.SchemaTree, Unmarshal: schema.Unmarshal}
				o := []ytypes.UnmarshalOpt{&ytypes.PreferShadowPath{}}
				if i == 1 {
					o = append(o, &ytypes.IgnoreExtraFields{})
				}
				var e2 error
				if p := callSUT(func() { e2 = ytypes.UnmarshalSetRequest(sc, req, o...) }); p != nil {
					return violation("C13", "panic", "C13:panic:setreq", "%s (PreferShadowPath) panicked: %v\n%s", desc, p.v, trimStack(p.stack))
				}
				if e2 != nil {
					res[i] = "error"
					continue
				}
				res[i] = model.Walk(sc.Root, s.sch, "").Fingerprint()
			}
			s.st.Probes["option_pair_shadow_ignore_extra"]++
			if res[0] != "error" {
				s.st.Probes["option_pair_shadow_ignore_extra_applied"]++
			}
			if res[0] != res[1] {
				d := []string{res[0], res[1]}
				if res[0] != "error" && res[1] != "error" {
					d = model.DiffFlat(flatOf(res[0]), flatOf(res[1]), 4)
				}
				return violation("C13", "option-dependence", "C13:option-pair:shadow+ignore-extra", "%s without unknown members gives another tree with {PreferShadowPath, IgnoreExtraFields} than with {PreferShadowPath}: %v", desc, d)
			}
		}
		if p := callSUT(func() { err = ytypes.UnmarshalSetRequest(schema, req, sopts...) }); p != nil {
			return violation("C13", "panic", "C13:panic:setreq", "%s panicked: %v\n%s", desc, p.v, trimStack(p.stack))
		}
	case "atomic":
		n := &gpb.Notification{}
		if uerr := protojson.Unmarshal([]byte(op.arg("notif")), n); uerr != nil {
			panic("C13: bad recorded notification: " + uerr.Error())
		}
		desc = fmt.Sprintf("atomic Notification{prefix=%s updates=%d}", model.FromGNMI(nil, n.Prefix), len(n.Update))
		if p := callSUT(func() { err = ytypes.UnmarshalNotifications(schema, []*gpb.Notification{n}) }); p != nil {
			return violation("C13", "panic", "C13:panic:atomic", "%s panicked: %v\n%s", desc, p.v, trimStack(p.stack))
		}
	default:
		panic("C13: unknown op " + op.K)
	}
	if schema.Root != s.root {
		s.root = schema.Root.(ygot.GoStruct)
	}
	after := s.model()
	kinds := map[string]bool{}
	for _, e := range effs {
		kinds[e.Kind+":"+e.Target] = true
	}
	sigk := strings.Join(model.SortedKeys(kinds), "+")
	if op.arg("bad") == "1" {
		s.st.Faults["bad_request"]++
		if err == nil {
			return violation("C13", "accepted-bad", "C13:accepted-bad:"+sigk, "%s carrying an undecodable update returned nil", desc)
		}
		s.st.Faults["failing_request"]++
		s.st.logf("%s bad -> error (model re-read)", desc)
		return nil
	}
	if err != nil {
		return violation("C13", "rejected-valid", "C13:rejected:"+sigk, "%s built from schema-conforming effects %s was rejected: %v", desc, summarise(effs), err)
	}
	for _, pr := range after.Problems {
		if strings.Contains(pr, "two entries with the same key value") {
			// One YANG key, two Go map keys: a list keyed by a union holds the key as an
			// interface value, and the same key string can be decoded as two different members
			// (path key "3" -> the string member, because patterns are not checked when a key
			// is built from a path; JSON number 3 -> the uint32 member), or - with wrapper
			// unions - as two distinct pointers. Reported under its own signature.
			return violation("C13", "model-mismatch", "C13:twin-entries:union-keyed-list", "%s: %s (effects %s)", desc, pr, summarise(effs))
		}
	}
	if d := ref.compare(after); len(d) > 0 {
		return violation("C13", "model-mismatch", "C13:mismatch:"+sigk, "%s: tree differs from the gNMI reference semantics (effects %s): %v", desc, summarise(effs), d)
	}
	for k := range kinds {
		s.st.Probes["effect:"+k]++
	}
	seenPut := map[string]int{}
	for _, e := range effs {
		if e.Kind == "update" && (e.Target == "leaf" || e.Target == "leaf-list") {
			for q := range e.Put {
				seenPut[q]++
			}
		}
	}
	for _, n := range seenPut {
		if n > 1 {
			s.st.Probes["same_path_written_twice"]++
			break
		}
	}
	if len(effs) > 1 {
		s.st.Probes["multi_step_request"]++
		if overlapping(effs) {
			s.st.Probes["overlapping_steps"]++
		}
	}
	if len(model.DiffFlat(before.Flat(), after.Flat(), 1)) > 0 {
		s.st.Probes["state_changes"]++
	}
	if len(ref.order) > 0 {
		s.st.Probes["ordered_list_present"]++
	}
	s.st.logf("%s ok: %s", desc, summarise(effs))
	return nil
}

func rank(k string) int {
	switch k {
	case "delete":
		return 0
	case "replace":
		return 1
	}
	return 2
}

func summarise(effs []effect) string {
	var parts []string
	for _, e := range effs {
		p := e.Del
		if p == "" {
			ks := model.SortedKeys(e.Put)
			if len(ks) > 0 {
				p = ks[0] + ",…"
			}
		}
		parts = append(parts, fmt.Sprintf("%s(%s %s +%d)", e.Kind, e.Target, p, len(e.Put)))
	}
	return strings.Join(parts, " ")
}

// overlapping reports whether two steps of a request touch a common subtree.
func overlapping(effs []effect) bool {
	roots := func(e effect) []string {
		if e.Del != "" {
			return []string{e.Del}
		}
		return model.SortedKeys(e.Put)
	}
	for i := range effs {
		for j := i + 1; j < len(effs); j++ {
			for _, a := range roots(effs[i]) {
				for _, b := range roots(effs[j]) {
					if model.Under(a, b) || model.Under(b, a) {
						return true
					}
				}
			}
		}
	}
	return false
}
