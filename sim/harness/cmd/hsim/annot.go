package main

import (
	"encoding/json"
	"fmt"
	"reflect"
	"sort"
	"strings"

	"github.com/openconfig/ygot/verifharness/model"
	"github.com/openconfig/ygot/ygot"
	"verifsim/simrt"
)

// Note is the harness's implementation of ygot.Annotation (annotations are user-defined
// types; generated structs hold them in the Λ-prefixed []ygot.Annotation fields).
type Note struct {
	Text string
	N    uint32
}

func (n *Note) MarshalJSON() ([]byte, error)  { return json.Marshal(map[string]any{"text": n.Text, "n": n.N}) }
func (n *Note) UnmarshalJSON(b []byte) error {
	var m struct {
		Text string `json:"text"`
		N    uint32 `json:"n"`
	}
	if err := json.Unmarshal(b, &m); err != nil {
		return err
	}
	n.Text, n.N = m.Text, m.N
	return nil
}

var annotationSliceT = reflect.TypeOf([]ygot.Annotation(nil))

// eachAnnotationField calls f for every annotation field of the tree (struct metadata and
// per-field annotations), in a deterministic order, with a readable location.
func eachAnnotationField(root interface{}, f func(loc string, fld reflect.Value)) {
	var walk func(v reflect.Value, path string)
	walk = func(v reflect.Value, path string) {
		if v.Kind() != reflect.Ptr || v.IsNil() || v.Elem().Kind() != reflect.Struct {
			return
		}
		s := v.Elem()
		t := s.Type()
		for i := 0; i < t.NumField(); i++ {
			sf := t.Field(i)
			fv := s.Field(i)
			if sf.Tag.Get("ygotAnnotation") != "" && sf.Type == annotationSliceT {
				f(path+"."+sf.Name, fv)
				continue
			}
			switch model.Classify(sf) {
			case model.FContainer:
				walk(fv, path+"."+sf.Name)
			case model.FList:
				if fv.IsNil() {
					continue
				}
				ks := fv.MapKeys()
				sort.Slice(ks, func(a, b int) bool { return model.Render(ks[a]) < model.Render(ks[b]) })
				for _, k := range ks {
					walk(fv.MapIndex(k), path+"."+sf.Name+"["+model.Render(k)+"]")
				}
			case model.FOrderedList:
				if fv.IsNil() {
					continue
				}
				st := model.OrderedInternals(fv)
				if !st.OK {
					continue
				}
				for j := 0; j < st.Keys.Len(); j++ {
					if ev := st.ValueMap.MapIndex(st.Keys.Index(j)); ev.IsValid() {
						walk(ev, fmt.Sprintf("%s.%s{%d}", path, sf.Name, j))
					}
				}
			case model.FUnkeyedList:
				for j := 0; j < fv.Len(); j++ {
					walk(fv.Index(j), fmt.Sprintf("%s.%s[%d]", path, sf.Name, j))
				}
			}
		}
	}
	walk(reflect.ValueOf(root), "")
}

// annotate attaches Notes to some annotation fields of a tree.
func annotate(root interface{}, r *simrt.Rng, tag string) int {
	n := 0
	eachAnnotationField(root, func(loc string, fld reflect.Value) {
		p := 12
		if strings.HasSuffix(loc, ".ΛMetadata") {
			p = 4
		}
		if r.Intn(p) != 0 {
			return
		}
		k := 1 + r.Intn(2)
		for i := 0; i < k; i++ {
			n++
			fld.Set(reflect.Append(fld, reflect.ValueOf(ygot.Annotation(&Note{Text: fmt.Sprintf("%s%d", tag, n), N: uint32(r.Intn(100))}))))
		}
	})
	return n
}

// annotationFingerprint renders every annotation of a tree.
func annotationFingerprint(root interface{}) string {
	var lines []string
	eachAnnotationField(root, func(loc string, fld reflect.Value) {
		for i := 0; i < fld.Len(); i++ {
			e := fld.Index(i)
			if e.IsNil() {
				lines = append(lines, fmt.Sprintf("%s[%d]=<nil>", loc, i))
				continue
			}
			if nt, ok := e.Interface().(*Note); ok && nt != nil {
				lines = append(lines, fmt.Sprintf("%s[%d]=Note{%q %d}", loc, i, nt.Text, nt.N))
			} else {
				lines = append(lines, fmt.Sprintf("%s[%d]=%T", loc, i, e.Interface()))
			}
		}
	})
	return strings.Join(lines, "\n")
}
