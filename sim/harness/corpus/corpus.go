// Package corpus is the registry of generated workload packages. The concrete list is
// written by verifctl (registry_gen.go) after it has run the scratch copy's own generator.
package corpus

import (
	"fmt"
	"reflect"
	"sort"

	"github.com/openconfig/goyang/pkg/yang"
	"github.com/openconfig/ygot/ygot"
	"github.com/openconfig/ygot/ytypes"
)

type yangEntry = yang.Entry

// Entry is goyang's schema node.
type Entry = yang.Entry

// Pkg describes one generated package.
type Pkg struct {
	Name       string
	SchemaFn   func() (*ytypes.Schema, error)
	GlobalTree func() map[string]*yang.Entry
	// SetGlobalTree replaces the package-level SchemaTree variable of the generated package
	// (what its Validate / Unmarshal helpers consult).
	SetGlobalTree func(map[string]*yang.Entry)
	Unmarshal  func([]byte, ygot.GoStruct, ...ytypes.UnmarshalOpt) error
	// BinaryType is the package's own `Binary` type (wrapper unions accept only it, not []byte)
	BinaryType reflect.Type
	Compressed bool
	Tags       []string

	schema *ytypes.Schema
}

var pkgs = map[string]*Pkg{}

func Register(p *Pkg) { pkgs[p.Name] = p }

// Names returns the registered package names, sorted.
func Names() []string {
	var n []string
	for k := range pkgs {
		n = append(n, k)
	}
	sort.Strings(n)
	return n
}

func Get(name string) *Pkg {
	p := pkgs[name]
	if p == nil {
		panic("corpus: unknown package " + name)
	}
	return p
}

func (p *Pkg) HasTag(t string) bool {
	for _, x := range p.Tags {
		if x == t {
			return true
		}
	}
	return false
}

// Schema returns one (cached) private schema for this package.
func (p *Pkg) Schema() *ytypes.Schema {
	if p.schema == nil {
		s, err := p.SchemaFn()
		if err != nil {
			panic(fmt.Sprintf("corpus %s: %v", p.Name, err))
		}
		p.schema = s
	}
	return p.schema
}

// FreshSchema unzips a new, unshared schema.
func (p *Pkg) FreshSchema() *ytypes.Schema {
	s, err := p.SchemaFn()
	if err != nil {
		panic(fmt.Sprintf("corpus %s: %v", p.Name, err))
	}
	return s
}

// RootType is the Go struct type of the fake root.
func (p *Pkg) RootType() reflect.Type { return reflect.TypeOf(p.Schema().Root).Elem() }

// NewRoot returns a new empty root.
func (p *Pkg) NewRoot() ygot.GoStruct {
	return reflect.New(p.RootType()).Interface().(ygot.GoStruct)
}
