//go:build race

package simrt

import (
	"runtime"
	"unsafe"
)

// RaceBuild reports whether the binary was built with the race detector.
const RaceBuild = true

//go:norace
func raceDisable() { runtime.RaceDisable() }

//go:norace
func raceEnable() { runtime.RaceEnable() }

//go:norace
func raceAcquire(p unsafe.Pointer) { runtime.RaceAcquire(p) }

//go:norace
func raceRelease(p unsafe.Pointer) { runtime.RaceRelease(p) }

//go:norace
func raceReleaseMerge(p unsafe.Pointer) { runtime.RaceReleaseMerge(p) }

// RaceErrors is the number of data races the detector has reported so far.
func RaceErrors() int { return runtime.RaceErrors() }
