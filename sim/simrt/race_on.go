//go:build race

package simrt

import "runtime"

// RaceBuild reports whether the binary was built with the race detector.
const RaceBuild = true

//go:norace
func raceDisable() { runtime.RaceDisable() }

//go:norace
func raceEnable() { runtime.RaceEnable() }

// RaceErrors is the number of data races the detector has reported so far.
func RaceErrors() int { return runtime.RaceErrors() }
