package simrt

import (
	"fmt"
	"runtime"
	"sync"
	"unsafe"
)

// Switch is one scheduling decision: at global step Step (the Step-th yield point
// executed in the run), control moved from task From to task To at source site Site.
type Switch struct {
	Step int64  `json:"step"`
	From int    `json:"from"`
	To   int    `json:"to"`
	Site string `json:"site"`
	Kind string `json:"kind"` // "preempt", "blocked", "finish", "start"
}

// SchedCfg configures one simulated run.
type SchedCfg struct {
	Seed     uint64
	MeanGap  int      // mean number of yield points between preemptions (random-walk policy)
	Starve   int      // task id frozen at the start (-1: none)
	StarveTo int64    // ... until this global step (or until nothing else can run)
	Explicit []Switch // replay: follow exactly these preemptions (Kind=="preempt"), nothing else
	Replay   bool
	MaxSteps int64 // watchdog: abort the run beyond this many yield points (0: none)
	// HideSync makes every task ignore synchronisation events for the race detector, except
	// those of the mutexes of the code under test, which the lock shims annotate explicitly.
	// Library-internal synchronisation (sync.Pool in fmt, regexp, protobuf ...) then creates
	// no accidental happens-before edges between tasks, so the detector's verdict depends
	// only on the (replayable) interleaving of memory accesses.
	HideSync bool
	// LockBias > 0: after a task acquires a mutex of the code under test it is preempted
	// right there with probability 1/LockBias (search mode), so that other tasks meet the
	// lock while it is held.
	LockBias int
}

// SchedResult is what a run reports.
type SchedResult struct {
	Steps      int64
	Trace      []Switch
	Preempts   int
	// Truncated: the switch trace is incomplete; the run can still be repeated exactly from
	// its scheduler seed (every decision is drawn from it), but not from the explicit list
	Truncated bool
	Blocked    int
	Hash       uint64
	Deadlock   bool
	Overrun    bool
	TaskSteps  []int64
}

type sched struct {
	cfg        SchedCfg
	tasks      []*Ctx
	cur        *Ctx
	r          Rng // preemption decisions (search mode only)
	r2         Rng // start / finish / blocked decisions (identical in search and replay)
	steps      int64
	nextSwitch int64
	ei         int
	trace      []Switch
	truncated  bool // more switches happened than the pre-allocated trace can hold
	// consecutive lock-blocked switches without any task passing a yield point in between
	blockedStreak int
	hash       uint64
	preempts   int
	blocked    int
	deadlock   bool
	overrun    bool
	allDone    chan struct{}
	release    chan struct{}
}

var theSched *sched

// OnDeadlock is called (on the goroutine that detects it) when every unfinished task
// is blocked in a lock shim. It must not return normally.
var OnDeadlock = func(msg string) { panic("simrt: " + msg) }

//go:norace
func (s *sched) gap() int64 {
	m := s.cfg.MeanGap
	if m <= 1 {
		return 1
	}
	// geometric-ish: uniform in [1, 2m) has mean m and is cheap and reproducible
	return 1 + int64(s.r.Intn(2*m-1))
}

//go:norace
func (s *sched) armNext() {
	if s.cfg.Replay {
		for s.ei < len(s.cfg.Explicit) && s.cfg.Explicit[s.ei].Kind != "preempt" {
			s.ei++
		}
		if s.ei < len(s.cfg.Explicit) {
			s.nextSwitch = s.cfg.Explicit[s.ei].Step
		} else {
			s.nextSwitch = 1 << 62
		}
		return
	}
	s.nextSwitch = s.steps + s.gap()
}

// pick chooses another unfinished task (not `not`), or nil.
//
//go:norace
func (s *sched) pick(r *Rng, not *Ctx, honourFreeze bool) *Ctx {
	var cand [64]*Ctx
	n := 0
	for _, t := range s.tasks {
		if t == not || t.finished {
			continue
		}
		if honourFreeze && t.frozenTo > s.steps {
			continue
		}
		if n < len(cand) {
			cand[n] = t
			n++
		}
	}
	if n == 0 {
		if honourFreeze {
			return s.pick(r, not, false)
		}
		return nil
	}
	return cand[r.Intn(n)]
}

//go:norace
func (s *sched) record(kind string, from, to *Ctx, site string) {
	f, t := -1, -1
	if from != nil {
		f = from.ID
	}
	if to != nil {
		t = to.ID
	}
	s.hash = hashU(s.hash, uint64(s.steps))
	s.hash = hashU(s.hash, uint64(f+1)<<8|uint64(t+1))
	s.hash = hashStr(s.hash, site)
	if len(s.trace) < cap(s.trace) {
		s.trace = append(s.trace, Switch{Step: s.steps, From: f, To: t, Site: site, Kind: kind})
	} else {
		s.truncated = true
	}
}

// handoff parks the calling task and resumes `to`.
//
//go:norace
func (s *sched) handoff(from, to *Ctx) {
	s.cur = to
	cur = to
	raceDisable()
	to.resume <- struct{}{}
	<-from.resume
	raceEnable()
}

// Yield is called by instrumented code at every yield point.
//
//go:norace
func Yield(site string) {
	s := theSched
	if s == nil {
		return
	}
	t := s.cur
	t.Steps++
	s.steps++
	s.blockedStreak = 0
	if s.steps < s.nextSwitch {
		return
	}
	s.preemptAt(t, site)
}

//go:norace
func (s *sched) preemptAt(t *Ctx, site string) {
	if s.cfg.MaxSteps > 0 && s.steps > s.cfg.MaxSteps {
		s.overrun = true
	}
	var to *Ctx
	if s.cfg.Replay {
		if s.ei < len(s.cfg.Explicit) && s.cfg.Explicit[s.ei].Step <= s.steps {
			want := s.cfg.Explicit[s.ei].To
			s.ei++
			for _, x := range s.tasks {
				if x.ID == want && !x.finished && x != t {
					to = x
				}
			}
		}
	} else {
		to = s.pick(&s.r, t, true)
	}
	s.armNext()
	if to == nil {
		return
	}
	s.preempts++
	s.record("preempt", t, to, site)
	s.handoff(t, to)
}

// blockedSwitch is called from the lock shims when TryLock failed: someone else holds
// the lock, so another task must run.
//
//go:norace
func blockedSwitch(site string) {
	s := theSched
	if s == nil {
		// No scheduler: a failed TryLock on a single goroutine means the lock is held
		// by a real concurrent goroutine; just let the runtime schedule. If nobody ever
		// releases it (a lock left held by code that has long returned) that is a hang: stop it.
		soloSpins++
		if soloSpins > 5_000_000 {
			soloSpins = 0
			panic("simrt: lock at " + site + " is held and never released (no task is running that could release it)")
		}
		runtime.Gosched()
		return
	}
	t := s.cur
	s.steps++
	t.Steps++
	s.blockedStreak++
	to := s.pick(&s.r2, t, false)
	if to != nil && s.blockedStreak > 64*len(s.tasks)+64 {
		// every task that can run is itself waiting for a lock: nobody has made progress
		// since the streak began
		to = nil
	}
	if to == nil {
		s.deadlock = true
		OnDeadlock(fmt.Sprintf("deadlock: task %d blocked at %s and no other task can run", t.ID, site))
		return
	}
	s.blocked++
	s.record("blocked", t, to, site)
	s.handoff(t, to)
}

var soloSpins int

type locker interface {
	Lock()
	Unlock()
	TryLock() bool
}
type rlocker interface {
	RLock()
	RUnlock()
	TryRLock() bool
}

var _ locker = (*sync.Mutex)(nil)
var _ rlocker = (*sync.RWMutex)(nil)

// syncAddrs gives every mutex of the code under test two private addresses on which its
// happens-before edges are modelled for the race detector (as sync.RWMutex does itself
// with readerSem / writerSem). The table is only touched by norace code.
type muAddrs struct {
	mu   unsafe.Pointer
	r, w *byte
}

var muTable [64]muAddrs
var muCount int

//go:norace
func addrsOf(mu unsafe.Pointer) *muAddrs {
	for i := 0; i < muCount; i++ {
		if muTable[i].mu == mu {
			return &muTable[i]
		}
	}
	if muCount == len(muTable) {
		return &muTable[0]
	}
	muTable[muCount] = muAddrs{mu: mu, r: new(byte), w: new(byte)}
	muCount++
	return &muTable[muCount-1]
}

// hidden reports whether the calling task runs with synchronisation hidden.
//
//go:norace
func hidden() bool {
	s := theSched
	return s != nil && s.cfg.HideSync && s.cur != nil
}

// heldYield is the yield point right after a lock has been acquired.
//
//go:norace
func heldYield(site string) {
	s := theSched
	if s == nil {
		return
	}
	if !s.cfg.Replay && s.cfg.LockBias > 0 && s.r.Intn(s.cfg.LockBias) == 0 {
		s.nextSwitch = s.steps + 1
	}
	Yield(site)
}

// Lock replaces mu.Lock(): the real mutex is still acquired, but a task that cannot get
// it hands control to another task instead of parking inside the runtime where the
// simulator cannot see it.
//
//go:norace
func Lock(site string, mu locker) {
	Yield(site)
	for !mu.TryLock() {
		blockedSwitch(site)
	}
	if hidden() {
		a := addrsOf(ptrOf(mu))
		raceEnable()
		raceAcquire(unsafe.Pointer(a.r))
		raceAcquire(unsafe.Pointer(a.w))
		raceDisable()
	}
	noteHeld(ptrOf(mu), site, false, mu, nil)
	heldYield(site)
}

// held locks (the scheduler runs one task at a time, so plain variables do)
type heldLock struct {
	p    unsafe.Pointer
	site string
	read bool
	w    locker
	r    rlocker
}

var heldLocks [32]heldLock
var nHeld int

//go:norace
func noteHeld(p unsafe.Pointer, site string, read bool, w locker, r rlocker) {
	if nHeld < len(heldLocks) {
		heldLocks[nHeld] = heldLock{p, site, read, w, r}
		nHeld++
	}
}

//go:norace
func noteReleased(p unsafe.Pointer, read bool) {
	for i := nHeld - 1; i >= 0; i-- {
		if heldLocks[i].p == p && heldLocks[i].read == read {
			copy(heldLocks[i:nHeld-1], heldLocks[i+1:nHeld])
			nHeld--
			heldLocks[nHeld] = heldLock{}
			return
		}
	}
}

// ReleaseLeftHeld unlocks every instrumented mutex that is still held although no task is
// running any more (a lock acquired and never released), and returns where each was taken.
//
//go:norace
func ReleaseLeftHeld() []string {
	var sites []string
	for nHeld > 0 {
		h := heldLocks[nHeld-1]
		nHeld--
		heldLocks[nHeld] = heldLock{}
		sites = append(sites, h.site)
		if h.read {
			h.r.RUnlock()
		} else {
			h.w.Unlock()
		}
	}
	return sites
}

// Unlock replaces mu.Unlock().
//
//go:norace
func Unlock(site string, mu locker) {
	if hidden() {
		a := addrsOf(ptrOf(mu))
		raceEnable()
		raceRelease(unsafe.Pointer(a.r))
		raceReleaseMerge(unsafe.Pointer(a.w))
		raceDisable()
	}
	noteReleased(ptrOf(mu), false)
	mu.Unlock()
	Yield(site)
}

// RLock replaces mu.RLock().
//
//go:norace
func RLock(site string, mu rlocker) {
	Yield(site)
	for !mu.TryRLock() {
		blockedSwitch(site)
	}
	if hidden() {
		a := addrsOf(ptrOf(mu))
		raceEnable()
		raceAcquire(unsafe.Pointer(a.r))
		raceDisable()
	}
	noteHeld(ptrOf(mu), site, true, nil, mu)
	heldYield(site)
}

// RUnlock replaces mu.RUnlock().
//
//go:norace
func RUnlock(site string, mu rlocker) {
	if hidden() {
		a := addrsOf(ptrOf(mu))
		raceEnable()
		raceReleaseMerge(unsafe.Pointer(a.w))
		raceDisable()
	}
	noteReleased(ptrOf(mu), true)
	mu.RUnlock()
	Yield(site)
}

//go:norace
func ptrOf(x interface{}) unsafe.Pointer {
	return (*[2]unsafe.Pointer)(unsafe.Pointer(&x))[1]
}

// TaskResult is filled by RunTasks for each task.
type TaskResult struct {
	Panic any
	Stack string
}

// RunTasks executes the task functions as cooperatively scheduled goroutines, exactly
// one runnable at any time, every scheduling choice drawn from cfg.Seed (or taken from
// cfg.Explicit when replaying). ctxs[i] is task i's context.
func RunTasks(cfg SchedCfg, ctxs []*Ctx, fns []func()) (SchedResult, []TaskResult) {
	if len(ctxs) != len(fns) || len(fns) == 0 || len(fns) > 64 {
		panic("simrt: bad RunTasks arguments")
	}
	s := &sched{cfg: cfg, tasks: ctxs, r: NewRng(cfg.Seed), r2: NewRng(Mix(cfg.Seed, 0xf1)), trace: make([]Switch, 0, 1<<17), allDone: make(chan struct{}), release: make(chan struct{})}
	res := make([]TaskResult, len(fns))
	var wg sync.WaitGroup
	for i, c := range ctxs {
		c.ID = i
		c.resume = make(chan struct{})
		c.finished = false
		c.Steps = 0
		c.frozenTo = 0
	}
	if cfg.Starve >= 0 && cfg.Starve < len(ctxs) {
		ctxs[cfg.Starve].frozenTo = cfg.StarveTo
	}
	for i := range fns {
		wg.Add(1)
		go taskMain(s, ctxs[i], fns[i], &res[i], &wg)
	}
	startSched(s)
	wg.Wait()
	stopSched()
	out := SchedResult{Steps: s.steps, Trace: s.trace, Preempts: s.preempts, Blocked: s.blocked, Hash: s.hash, Deadlock: s.deadlock, Overrun: s.overrun, Truncated: s.truncated}
	for _, c := range ctxs {
		out.TaskSteps = append(out.TaskSteps, c.Steps)
	}
	return out, res
}

//go:norace
func startSched(s *sched) {
	old := cur
	theSched = s
	first := s.pick(&s.r2, nil, true)
	s.armNext()
	s.record("start", nil, first, "")
	s.cur = first
	cur = first
	raceDisable()
	first.resume <- struct{}{}
	<-s.allDone
	raceEnable()
	cur = old
}

//go:norace
func stopSched() { theSched = nil }

//go:norace
func waitTurn(c *Ctx) {
	raceDisable()
	<-c.resume
	raceEnable()
}

//go:norace
func finishTask(s *sched, c *Ctx) {
	c.finished = true
	to := s.pick(&s.r2, c, false)
	if to == nil {
		// the last task to finish releases the parked ones, then the collector
		raceDisable()
		close(s.release)
		s.allDone <- struct{}{}
		raceEnable()
		return
	}
	s.record("finish", c, to, "")
	s.cur = to
	cur = to
	raceDisable()
	to.resume <- struct{}{}
	// A finished task stays parked until every task has finished: the race detector
	// recycles the bookkeeping of goroutines that exit, which makes its verdict about an
	// access of an exited goroutine depend on unrelated process history.
	<-s.release
	raceEnable()
}

func taskMain(s *sched, c *Ctx, f func(), r *TaskResult, wg *sync.WaitGroup) {
	defer wg.Done()
	waitTurn(c)
	if s.cfg.HideSync {
		// from here to the end of the task body, synchronisation performed by this goroutine
		// is invisible to the race detector (the lock shims re-enable it for their own
		// annotations); it is switched back on before wg.Done so that the collector is
		// ordered after everything the task did
		raceDisable()
		defer raceEnable()
	}
	func() {
		defer func() {
			if p := recover(); p != nil {
				r.Panic = p
				buf := make([]byte, 1<<14)
				r.Stack = string(buf[:runtime.Stack(buf, false)])
			}
		}()
		f()
	}()
	finishTask(s, c)
}
