package simrt

import (
	"fmt"
	"runtime"
	"sync"
)

// Switch is one scheduling decision: at global step Step (the Step-th yield point
// executed in the run), control moved from task From to task To at source site Site.
type Switch struct {
	Step int64  `json:"step"`
	From int    `json:"from"`
	To   int    `json:"to"`
	Site string `json:"site"`
	Kind string `json:"kind"` // "preempt", "blocked", "finish", "start"
}

// SchedCfg configures one simulated run.
type SchedCfg struct {
	Seed     uint64
	MeanGap  int      // mean number of yield points between preemptions (random-walk policy)
	Starve   int      // task id frozen at the start (-1: none)
	StarveTo int64    // ... until this global step (or until nothing else can run)
	Explicit []Switch // replay: follow exactly these preemptions (Kind=="preempt"), nothing else
	Replay   bool
	MaxSteps int64 // watchdog: abort the run beyond this many yield points (0: none)
}

// SchedResult is what a run reports.
type SchedResult struct {
	Steps      int64
	Trace      []Switch
	Preempts   int
	Blocked    int
	Hash       uint64
	Deadlock   bool
	Overrun    bool
	TaskSteps  []int64
}

type sched struct {
	cfg        SchedCfg
	tasks      []*Ctx
	cur        *Ctx
	r          Rng // preemption decisions (search mode only)
	r2         Rng // start / finish / blocked decisions (identical in search and replay)
	steps      int64
	nextSwitch int64
	ei         int
	trace      []Switch
	hash       uint64
	preempts   int
	blocked    int
	deadlock   bool
	overrun    bool
	allDone    chan struct{}
}

var theSched *sched

// OnDeadlock is called (on the goroutine that detects it) when every unfinished task
// is blocked in a lock shim. It must not return normally.
var OnDeadlock = func(msg string) { panic("simrt: " + msg) }

//go:norace
func (s *sched) gap() int64 {
	m := s.cfg.MeanGap
	if m <= 1 {
		return 1
	}
	// geometric-ish: uniform in [1, 2m) has mean m and is cheap and reproducible
	return 1 + int64(s.r.Intn(2*m-1))
}

//go:norace
func (s *sched) armNext() {
	if s.cfg.Replay {
		for s.ei < len(s.cfg.Explicit) && s.cfg.Explicit[s.ei].Kind != "preempt" {
			s.ei++
		}
		if s.ei < len(s.cfg.Explicit) {
			s.nextSwitch = s.cfg.Explicit[s.ei].Step
		} else {
			s.nextSwitch = 1 << 62
		}
		return
	}
	s.nextSwitch = s.steps + s.gap()
}

// pick chooses another unfinished task (not `not`), or nil.
//
//go:norace
func (s *sched) pick(r *Rng, not *Ctx, honourFreeze bool) *Ctx {
	var cand [64]*Ctx
	n := 0
	for _, t := range s.tasks {
		if t == not || t.finished {
			continue
		}
		if honourFreeze && t.frozenTo > s.steps {
			continue
		}
		if n < len(cand) {
			cand[n] = t
			n++
		}
	}
	if n == 0 {
		if honourFreeze {
			return s.pick(r, not, false)
		}
		return nil
	}
	return cand[r.Intn(n)]
}

//go:norace
func (s *sched) record(kind string, from, to *Ctx, site string) {
	f, t := -1, -1
	if from != nil {
		f = from.ID
	}
	if to != nil {
		t = to.ID
	}
	s.hash = hashU(s.hash, uint64(s.steps))
	s.hash = hashU(s.hash, uint64(f+1)<<8|uint64(t+1))
	s.hash = hashStr(s.hash, site)
	if len(s.trace) < cap(s.trace) {
		s.trace = append(s.trace, Switch{Step: s.steps, From: f, To: t, Site: site, Kind: kind})
	}
}

// handoff parks the calling task and resumes `to`.
//
//go:norace
func (s *sched) handoff(from, to *Ctx) {
	s.cur = to
	cur = to
	raceDisable()
	to.resume <- struct{}{}
	<-from.resume
	raceEnable()
}

// Yield is called by instrumented code at every yield point.
//
//go:norace
func Yield(site string) {
	s := theSched
	if s == nil {
		return
	}
	t := s.cur
	t.Steps++
	s.steps++
	if s.steps < s.nextSwitch {
		return
	}
	s.preemptAt(t, site)
}

//go:norace
func (s *sched) preemptAt(t *Ctx, site string) {
	if s.cfg.MaxSteps > 0 && s.steps > s.cfg.MaxSteps {
		s.overrun = true
	}
	var to *Ctx
	if s.cfg.Replay {
		if s.ei < len(s.cfg.Explicit) && s.cfg.Explicit[s.ei].Step <= s.steps {
			want := s.cfg.Explicit[s.ei].To
			s.ei++
			for _, x := range s.tasks {
				if x.ID == want && !x.finished && x != t {
					to = x
				}
			}
		}
	} else {
		to = s.pick(&s.r, t, true)
	}
	s.armNext()
	if to == nil {
		return
	}
	s.preempts++
	s.record("preempt", t, to, site)
	s.handoff(t, to)
}

// blockedSwitch is called from the lock shims when TryLock failed: someone else holds
// the lock, so another task must run.
//
//go:norace
func blockedSwitch(site string) {
	s := theSched
	if s == nil {
		// No scheduler: a failed TryLock on a single goroutine means the lock is held
		// by a real concurrent goroutine; just let the runtime schedule.
		runtime.Gosched()
		return
	}
	t := s.cur
	s.steps++
	t.Steps++
	to := s.pick(&s.r2, t, false)
	if to == nil {
		s.deadlock = true
		OnDeadlock(fmt.Sprintf("deadlock: task %d blocked at %s and no other task can run", t.ID, site))
		return
	}
	s.blocked++
	s.record("blocked", t, to, site)
	s.handoff(t, to)
}

type locker interface {
	Lock()
	TryLock() bool
}
type rlocker interface {
	RLock()
	TryRLock() bool
}

var _ locker = (*sync.Mutex)(nil)
var _ rlocker = (*sync.RWMutex)(nil)

// Lock replaces mu.Lock(): the real mutex is still acquired (so its own race
// annotations stay in force) but a task that cannot get it hands control to another
// task instead of parking inside the runtime where the simulator cannot see it.
func Lock(site string, mu locker) {
	Yield(site)
	for !mu.TryLock() {
		blockedSwitch(site)
	}
}

// RLock replaces mu.RLock().
func RLock(site string, mu rlocker) {
	Yield(site)
	for !mu.TryRLock() {
		blockedSwitch(site)
	}
}

// TaskResult is filled by RunTasks for each task.
type TaskResult struct {
	Panic any
	Stack string
}

// RunTasks executes the task functions as cooperatively scheduled goroutines, exactly
// one runnable at any time, every scheduling choice drawn from cfg.Seed (or taken from
// cfg.Explicit when replaying). ctxs[i] is task i's context.
func RunTasks(cfg SchedCfg, ctxs []*Ctx, fns []func()) (SchedResult, []TaskResult) {
	if len(ctxs) != len(fns) || len(fns) == 0 || len(fns) > 64 {
		panic("simrt: bad RunTasks arguments")
	}
	s := &sched{cfg: cfg, tasks: ctxs, r: NewRng(cfg.Seed), r2: NewRng(Mix(cfg.Seed, 0xf1)), trace: make([]Switch, 0, 1<<16), allDone: make(chan struct{})}
	res := make([]TaskResult, len(fns))
	var wg sync.WaitGroup
	for i, c := range ctxs {
		c.ID = i
		c.resume = make(chan struct{})
		c.finished = false
		c.Steps = 0
		c.frozenTo = 0
	}
	if cfg.Starve >= 0 && cfg.Starve < len(ctxs) {
		ctxs[cfg.Starve].frozenTo = cfg.StarveTo
	}
	for i := range fns {
		wg.Add(1)
		go taskMain(s, ctxs[i], fns[i], &res[i], &wg)
	}
	startSched(s)
	wg.Wait()
	stopSched()
	out := SchedResult{Steps: s.steps, Trace: s.trace, Preempts: s.preempts, Blocked: s.blocked, Hash: s.hash, Deadlock: s.deadlock, Overrun: s.overrun}
	for _, c := range ctxs {
		out.TaskSteps = append(out.TaskSteps, c.Steps)
	}
	return out, res
}

//go:norace
func startSched(s *sched) {
	old := cur
	theSched = s
	first := s.pick(&s.r2, nil, true)
	s.armNext()
	s.record("start", nil, first, "")
	s.cur = first
	cur = first
	raceDisable()
	first.resume <- struct{}{}
	<-s.allDone
	raceEnable()
	cur = old
}

//go:norace
func stopSched() { theSched = nil }

//go:norace
func waitTurn(c *Ctx) {
	raceDisable()
	<-c.resume
	raceEnable()
}

//go:norace
func finishTask(s *sched, c *Ctx) {
	c.finished = true
	to := s.pick(&s.r2, c, false)
	if to == nil {
		raceDisable()
		s.allDone <- struct{}{}
		raceEnable()
		return
	}
	s.record("finish", c, to, "")
	s.cur = to
	cur = to
	raceDisable()
	to.resume <- struct{}{}
	raceEnable()
}

func taskMain(s *sched, c *Ctx, f func(), r *TaskResult, wg *sync.WaitGroup) {
	defer wg.Done()
	waitTurn(c)
	func() {
		defer func() {
			if p := recover(); p != nil {
				r.Panic = p
				buf := make([]byte, 1<<14)
				r.Stack = string(buf[:runtime.Stack(buf, false)])
			}
		}()
		f()
	}()
	finishTask(s, c)
}
