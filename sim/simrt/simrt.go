// Package simrt is the runtime half of the verification seam. Instrumented ygot code
// calls into it at every map iteration, lock acquisition and yield point; the harness
// configures it from a single seed. Nothing in here reads a clock or an unseeded PRNG.
//
// Race-detector discipline: all state shared between task goroutines lives in plain
// variables that are only touched by //go:norace functions, the PRNG is local (no calls
// into race-instrumented packages on shared state), and the channel hand-offs between
// tasks are bracketed by runtime.RaceDisable/RaceEnable. The effect is that the race
// detector sees no happens-before edge created by the scheduler: two tasks are ordered
// only by what the system under test itself synchronises on, exactly as in a free run.
package simrt

import (
	"sync"
	"unsafe"
	"encoding/json"
	"fmt"
	"iter"
	"os"
	"reflect"
	"sort"
	"strconv"
	"strings"
)

// ---------------------------------------------------------------------------
// PRNG: splitmix64, value type, no globals.

type Rng struct{ s uint64 }

//go:norace
func NewRng(seed uint64) Rng { return Rng{s: seed*0x9E3779B97F4A7C15 + 0x1234567} }

//go:norace
func (r *Rng) Next() uint64 {
	r.s += 0x9E3779B97F4A7C15
	z := r.s
	z = (z ^ (z >> 30)) * 0xBF58476D1CE4E5B9
	z = (z ^ (z >> 27)) * 0x94D049BB133111EB
	return z ^ (z >> 31)
}

//go:norace
func (r *Rng) Intn(n int) int {
	if n <= 1 {
		return 0
	}
	return int(r.Next() % uint64(n))
}

// Mix derives a sub-seed.
//
//go:norace
func Mix(a, b uint64) uint64 {
	r := Rng{s: a ^ (b * 0xD6E8FEB86659FD93)}
	return r.Next()
}

//go:norace
func hashStr(h uint64, s string) uint64 {
	if h == 0 {
		h = 14695981039346656037
	}
	for i := 0; i < len(s); i++ {
		h ^= uint64(s[i])
		h *= 1099511628211
	}
	return h
}

//go:norace
func hashU(h uint64, v uint64) uint64 {
	if h == 0 {
		h = 14695981039346656037
	}
	for i := 0; i < 8; i++ {
		h ^= (v >> (8 * i)) & 0xff
		h *= 1099511628211
	}
	return h
}

// ---------------------------------------------------------------------------
// Map-order seam.

type MapMode int

const (
	MapPass    MapMode = iota // native runtime order (seam transparent)
	MapCanon                  // canonical (sorted by key content)
	MapRandom                 // seeded permutation
	MapReverse                // canonical order reversed
)

// Ctx is the per-task (or, outside the scheduler, the process-wide) context: its own
// permutation stream and its own statistics, so that a task sees the same map orders
// whether it runs alone or interleaved with others.
type Ctx struct {
	ID   int
	Name string

	Mode  MapMode
	perm  Rng
	sites map[string]bool // nil: every site may deviate from canonical order
	// statistics, owned by the goroutine running under this ctx
	Visits    map[string]int
	Multi     map[string]int
	Deviated  map[string]int
	MapEvents int64
	Hash      uint64

	// scheduler
	resume   chan struct{}
	finished bool
	Steps    int64
	frozenTo int64
}

var mainCtx = &Ctx{Name: "main", Visits: map[string]int{}, Multi: map[string]int{}, Deviated: map[string]int{}}
var cur = mainCtx

// NewCtx makes a context with its own permutation stream.
func NewCtx(id int, name string, mode MapMode, seed uint64, sites []string) *Ctx {
	c := &Ctx{ID: id, Name: name, Mode: mode, perm: NewRng(seed), Visits: map[string]int{}, Multi: map[string]int{}, Deviated: map[string]int{}}
	if sites != nil {
		c.sites = map[string]bool{}
		for _, s := range sites {
			c.sites[s] = true
		}
	}
	return c
}

// Main returns the process-wide context.
func Main() *Ctx { return mainCtx }

// Configure sets the process-wide context (used outside the scheduler).
func Configure(mode MapMode, seed uint64, sites []string) {
	mainCtx.Mode = mode
	mainCtx.perm = NewRng(seed)
	mainCtx.sites = nil
	if sites != nil {
		mainCtx.sites = map[string]bool{}
		for _, s := range sites {
			mainCtx.sites[s] = true
		}
	}
}

// ResetStats clears the statistics of the process-wide context.
func ResetStats() {
	mainCtx.Visits = map[string]int{}
	mainCtx.Multi = map[string]int{}
	mainCtx.Deviated = map[string]int{}
	mainCtx.MapEvents = 0
	mainCtx.Hash = 0
}

// With runs f with c as the current context (sequential use only).
func With(c *Ctx, f func()) {
	old := cur
	cur = c
	defer func() { cur = old }()
	f()
}

//go:norace
func current() *Ctx { return cur }

func init() {
	m := os.Getenv("VERIF_MAP")
	var sites []string
	if s := os.Getenv("VERIF_SITES"); s != "" {
		if strings.HasPrefix(s, "@") {
			b, err := os.ReadFile(s[1:])
			if err != nil {
				panic("simrt: " + err.Error())
			}
			s = strings.TrimSpace(string(b))
		}
		for _, x := range strings.Split(s, ",") {
			if x = strings.TrimSpace(x); x != "" {
				sites = append(sites, x)
			}
		}
		if sites == nil {
			sites = []string{}
		}
	}
	switch {
	case m == "" || m == "pass":
		Configure(MapPass, 0, sites)
	case m == "canon":
		Configure(MapCanon, 0, sites)
	case m == "rev":
		Configure(MapReverse, 0, sites)
	case strings.HasPrefix(m, "rand:"):
		s, err := strconv.ParseUint(m[5:], 10, 64)
		if err != nil {
			panic("simrt: bad VERIF_MAP " + m)
		}
		Configure(MapRandom, s, sites)
	default:
		panic("simrt: bad VERIF_MAP " + m)
	}
}

// Stats is what AtExit / Snapshot report.
type Stats struct {
	Visits    map[string]int `json:"visits"`
	Multi     map[string]int `json:"multi"`
	Deviated  map[string]int `json:"deviated"`
	MapEvents int64          `json:"map_events"`
	Hash      string         `json:"hash"`
}

func (c *Ctx) Snapshot() Stats {
	return Stats{Visits: c.Visits, Multi: c.Multi, Deviated: c.Deviated, MapEvents: c.MapEvents, Hash: fmt.Sprintf("%016x", c.Hash)}
}

// AtExit is deferred in instrumented main functions: it dumps the site statistics of
// the process-wide context to $VERIF_STATS.
func AtExit() {
	p := os.Getenv("VERIF_STATS")
	if p == "" {
		return
	}
	b, _ := json.Marshal(mainCtx.Snapshot())
	_ = os.WriteFile(p, b, 0644)
}

func canon(v reflect.Value, depth int) string {
	if !v.IsValid() {
		return "?"
	}
	if depth > 14 {
		return "~"
	}
	switch v.Kind() {
	case reflect.Ptr, reflect.Interface:
		if v.IsNil() {
			return "nil"
		}
		if v.Kind() == reflect.Interface {
			return v.Elem().Type().String() + ":" + canon(v.Elem(), depth+1)
		}
		return "&" + canon(v.Elem(), depth+1)
	case reflect.Struct:
		var b strings.Builder
		b.WriteString("{")
		for i := 0; i < v.NumField(); i++ {
			b.WriteString(canon(v.Field(i), depth+1))
			b.WriteString(",")
		}
		b.WriteString("}")
		return b.String()
	case reflect.Slice, reflect.Array:
		var b strings.Builder
		b.WriteString("[")
		n := v.Len()
		if n > 16 {
			n = 16
		}
		for i := 0; i < n; i++ {
			b.WriteString(canon(v.Index(i), depth+1))
			b.WriteString(",")
		}
		b.WriteString("]")
		return b.String()
	case reflect.Map:
		if v.Len() > 8 {
			return "map" + strconv.Itoa(v.Len())
		}
		parts := make([]string, 0, v.Len())
		it := v.MapRange()
		for it.Next() {
			parts = append(parts, canon(it.Key(), depth+1)+":"+canon(it.Value(), depth+1))
		}
		sort.Strings(parts)
		return "map{" + strings.Join(parts, ",") + "}"
	case reflect.String:
		return strconv.Quote(v.String())
	case reflect.Int, reflect.Int8, reflect.Int16, reflect.Int32, reflect.Int64:
		// offset so that lexical order is numeric order
		return fmt.Sprintf("i%020d", uint64(v.Int())+(1<<63))
	case reflect.Uint, reflect.Uint8, reflect.Uint16, reflect.Uint32, reflect.Uint64, reflect.Uintptr:
		return fmt.Sprintf("u%020d", v.Uint())
	case reflect.Bool:
		return strconv.FormatBool(v.Bool())
	case reflect.Float32, reflect.Float64:
		return strconv.FormatFloat(v.Float(), 'g', -1, 64)
	}
	return v.Kind().String()
}

// order permutes keys in place according to the current context.
func order(site string, keys []reflect.Value) {
	c := current()
	c.Visits[site]++
	n := len(keys)
	if n >= 2 {
		c.Multi[site]++
	}
	if c.Mode == MapPass || n < 2 {
		return
	}
	cs := make([]string, n)
	for i, k := range keys {
		cs[i] = canon(k, 0)
	}
	idx := make([]int, n)
	for i := range idx {
		idx[i] = i
	}
	sort.SliceStable(idx, func(a, b int) bool { return cs[idx[a]] < cs[idx[b]] })
	out := make([]reflect.Value, n)
	for i, j := range idx {
		out[i] = keys[j]
	}
	copy(keys, out)
	c.MapEvents++
	c.Hash = hashStr(c.Hash, site)
	c.Hash = hashU(c.Hash, uint64(n))
	if c.sites != nil && !c.sites[site] {
		return
	}
	switch c.Mode {
	case MapRandom:
		dev := false
		for i := n - 1; i > 0; i-- {
			j := c.perm.Intn(i + 1)
			if i != j {
				keys[i], keys[j] = keys[j], keys[i]
				dev = true
			}
			c.Hash = hashU(c.Hash, uint64(j))
		}
		if dev {
			c.Deviated[site]++
		}
	case MapReverse:
		for i, j := 0, n-1; i < j; i, j = i+1, j-1 {
			keys[i], keys[j] = keys[j], keys[i]
		}
		c.Deviated[site]++
	}
}

// MapSeq replaces `range m` over a map.
func MapSeq[M ~map[K]V, K comparable, V any](site string, m M) iter.Seq2[K, V] {
	return func(yield func(K, V) bool) {
		c := current()
		if c.Mode == MapPass {
			c.Visits[site]++
			if len(m) >= 2 {
				c.Multi[site]++
			}
			for k, v := range m {
				if !yield(k, v) {
					return
				}
			}
			return
		}
		if len(m) == 0 {
			c.Visits[site]++
			return
		}
		rks := reflect.ValueOf(m).MapKeys()
		order(site, rks)
		for _, rk := range rks {
			k := rk.Interface().(K)
			v, ok := m[k]
			if !ok {
				// deleted during iteration (or NaN key): the spec allows skipping it
				continue
			}
			if !yield(k, v) {
				return
			}
		}
	}
}

// MapKeys wraps reflect.Value.MapKeys().
func MapKeys(site string, keys []reflect.Value) []reflect.Value {
	order(site, keys)
	return keys
}

// Iter replaces *reflect.MapIter.
type Iter struct {
	m    reflect.Value
	keys []reflect.Value
	i    int
}

// MapRange wraps reflect.Value.MapRange().
func MapRange(site string, v reflect.Value) *Iter {
	keys := v.MapKeys()
	order(site, keys)
	return &Iter{m: v, keys: keys, i: -1}
}

func (it *Iter) Next() bool {
	for {
		it.i++
		if it.i >= len(it.keys) {
			return false
		}
		if it.m.MapIndex(it.keys[it.i]).IsValid() {
			return true
		}
	}
}
func (it *Iter) Key() reflect.Value   { return it.keys[it.i] }
func (it *Iter) Value() reflect.Value { return it.m.MapIndex(it.keys[it.i]) }

// ---------------------------------------------------------------------------
// simulated process restart

var resetFns []func()

// RegisterReset is called from init functions the instrumenter adds to the packages under
// test: f re-runs the initialisers of that file's package-level variables.
func RegisterReset(f func()) { resetFns = append(resetFns, f) }

// ResetGlobals re-initialises every package-level variable of the instrumented runtime
// packages, in registration order: the in-memory state a fresh process would start with
// (ygot keeps nothing durable, so this is all a restart amounts to). It must only be called
// while no task is running.
func ResetGlobals() int {
	for _, f := range resetFns {
		f()
	}
	for k := range pools {
		delete(pools, k)
	}
	return len(resetFns)
}

// ---------------------------------------------------------------------------
// sync.Pool behind the seam

var pools = map[*sync.Pool][]any{}

// PoolGet replaces p.Get() in instrumented code: the most recently put object, else p.New().
// Any object put earlier is a legal answer of sync.Pool.Get; the real pool's choice depends
// on which P the caller runs on and on the garbage collector, which a replay cannot repeat.
//
//go:norace
func PoolGet(site string, p *sync.Pool) any {
	poolSync(p, false)
	if st := pools[p]; len(st) > 0 {
		x := st[len(st)-1]
		pools[p] = st[:len(st)-1]
		return x
	}
	if p.New != nil {
		return p.New()
	}
	return nil
}

// PoolPut replaces p.Put(x).
//
//go:norace
func PoolPut(site string, p *sync.Pool, x any) {
	if x == nil {
		return
	}
	pools[p] = append(pools[p], x)
	poolSync(p, true)
}

// poolSync tells the race detector what a real sync.Pool guarantees: everything done to an
// object before Put happens before whatever the goroutine that Gets it does afterwards.
//
//go:norace
func poolSync(p *sync.Pool, release bool) {
	if !RaceBuild {
		return
	}
	h := hidden()
	if h {
		raceEnable()
	}
	if release {
		raceReleaseMerge(unsafe.Pointer(p))
	} else {
		raceAcquire(unsafe.Pointer(p))
	}
	if h {
		raceDisable()
	}
}
