//go:build !race

package simrt

// RaceBuild reports whether the binary was built with the race detector.
const RaceBuild = false

func raceDisable() {}
func raceEnable()  {}

// RaceErrors is the number of data races the detector has reported so far.
func RaceErrors() int { return 0 }
