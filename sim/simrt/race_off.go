//go:build !race

package simrt

import "unsafe"

// RaceBuild reports whether the binary was built with the race detector.
const RaceBuild = false

func raceDisable()                      {}
func raceEnable()                       {}
func raceAcquire(p unsafe.Pointer)      {}
func raceRelease(p unsafe.Pointer)      {}
func raceReleaseMerge(p unsafe.Pointer) {}

// RaceErrors is the number of data races the detector has reported so far.
func RaceErrors() int { return 0 }
