module verifsim

go 1.23.4
