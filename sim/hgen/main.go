// Command hgen runs the code generators as libraries several times inside ONE process
// (the binaries `generator` / `proto_generator` are one-shot) and compares the results:
//
//	run 1: canonical map order           (reference)
//	run 2: canonical map order again     (state left behind by run 1 must not matter)
//	run 3: seeded random map order       (order and left-over state together)
//
// It prints one JSON line. It is compiled inside the instrumented scratch copy.
package main

import (
	"encoding/json"
	"flag"
	"fmt"
	"os"
	"sort"
	"strings"

	"github.com/openconfig/ygot/genutil"
	"github.com/openconfig/ygot/gogen"
	"github.com/openconfig/ygot/protogen"
	"github.com/openconfig/ygot/ygen"
	"github.com/openconfig/ygot/ypathgen"
	"verifsim/simrt"
)

func main() {
	tool := flag.String("tool", "go", "go|path|proto")
	compress := flag.Bool("compress", false, "")
	paths := flag.String("path", "", "comma separated include paths")
	seed := flag.Uint64("seed", 1, "seed of the random-order run")
	flag.Parse()
	files := flag.Args()
	var inc []string
	for _, p := range strings.Split(*paths, ",") {
		if p != "" {
			inc = append(inc, p+"/...")
		}
	}
	cb, err := genutil.TranslateToCompressBehaviour(*compress, false, false)
	if err != nil {
		fail(err)
	}
	gen := func() (string, error) {
		switch *tool {
		case "go":
			cg := gogen.New("hgen", ygen.IROptions{
				TransformationOptions: ygen.TransformationOpts{CompressBehaviour: cb, GenerateFakeRoot: true, FakeRootName: "device", EnumerationsUseUnderscores: true,
					ShortenEnumLeafNames: true, UseDefiningModuleForTypedefEnumNames: true},
			}, gogen.GoOpts{PackageName: "vout", GenerateJSONSchema: true, GenerateSimpleUnions: true, GenerateGetters: true, GenerateRenameMethod: true,
				GenerateAppendMethod: true, GenerateDeleteMethod: true, GenerateLeafGetters: true, GeneratePopulateDefault: true, AddAnnotationFields: true,
				AnnotationPrefix: gogen.DefaultAnnotationPrefix, YgotImportPath: genutil.GoDefaultYgotImportPath, YtypesImportPath: genutil.GoDefaultYtypesImportPath,
				GoyangImportPath: genutil.GoDefaultGoyangImportPath, ValidateFunctionName: "Validate", AppendEnumSuffixForSimpleUnionEnums: true, IncludeModelData: true})
			out, errs := cg.Generate(files, inc)
			if errs != nil {
				return "", fmt.Errorf("%v", errs)
			}
			var b strings.Builder
			b.WriteString(out.CommonHeader + out.OneOffHeader)
			for _, s := range out.Structs {
				b.WriteString(s.String())
			}
			b.WriteString(strings.Join(out.Enums, "\n") + out.EnumMap + out.EnumTypeMap + out.JSONSchemaCode + string(out.RawJSONSchema))
			return b.String(), nil
		case "path":
			pcg := &ypathgen.GenConfig{PackageName: "vout", GoImports: ypathgen.GoImports{SchemaStructPkgPath: "", YgotImportPath: genutil.GoDefaultYgotImportPath},
				FakeRootName: "device", PathStructSuffix: "Path", GeneratingBinary: "hgen", GenerateWildcardPaths: true, ShortenEnumLeafNames: true,
				UseDefiningModuleForTypedefEnumNames: true, AppendEnumSuffixForSimpleUnionEnums: true}
			out, _, errs := pcg.GeneratePathCode(files, inc)
			if errs != nil {
				return "", fmt.Errorf("%v", errs)
			}
			var names []string
			for n := range out {
				names = append(names, n)
			}
			sort.Strings(names)
			var b strings.Builder
			for _, n := range names {
				b.WriteString("== " + n + "\n" + out[n].String())
			}
			return b.String(), nil
		case "proto":
			cg := protogen.New("hgen", ygen.IROptions{TransformationOptions: ygen.TransformationOpts{CompressBehaviour: cb, GenerateFakeRoot: true, FakeRootName: "device"}},
				protogen.ProtoOpts{PackageName: "vout", BaseImportPath: "example.com/verif", YwrapperPath: protogen.DefaultYwrapperPath, YextPath: protogen.DefaultYextPath,
					AnnotateSchemaPaths: true, AnnotateEnumNames: true, NestedMessages: false, EnumPackageName: "enums", GoPackageBase: "example.com/verif/out"})
			out, errs := cg.Generate(files, inc)
			if errs != nil {
				return "", fmt.Errorf("%v", errs)
			}
			var names []string
			for n := range out.Packages {
				names = append(names, n)
			}
			sort.Strings(names)
			var b strings.Builder
			for _, n := range names {
				p := out.Packages[n]
				b.WriteString("== " + strings.Join(p.FilePath, "/") + "\n" + p.Header + "\n" + strings.Join(p.Enums, "\n") + "\n" + strings.Join(p.Messages, "\n"))
			}
			return b.String(), nil
		}
		return "", fmt.Errorf("unknown tool %q", *tool)
	}
	res := map[string]any{"tool": *tool, "compress": *compress}
	simrt.Configure(simrt.MapCanon, 0, nil)
	ref, err := gen()
	if err != nil {
		res["skipped"] = err.Error()
		emit(res)
		return
	}
	simrt.Configure(simrt.MapCanon, 0, nil)
	again, err2 := gen()
	simrt.Configure(simrt.MapRandom, *seed, nil)
	random, err3 := gen()
	res["bytes"] = len(ref)
	res["second_run_same"] = err2 == nil && again == ref
	res["random_order_run_same"] = err3 == nil && random == ref
	if err2 != nil {
		res["second_run_error"] = err2.Error()
	}
	if err3 != nil {
		res["random_run_error"] = err3.Error()
	}
	if again != ref {
		res["second_run_diff"] = firstDiff(ref, again)
	}
	if random != ref {
		res["random_run_diff"] = firstDiff(ref, random)
		res["deviating_sites"] = len(simrt.Main().Deviated)
	}
	emit(res)
}

func firstDiff(a, b string) string {
	n := len(a)
	if len(b) < n {
		n = len(b)
	}
	i := 0
	for i < n && a[i] == b[i] {
		i++
	}
	lo := i - 80
	if lo < 0 {
		lo = 0
	}
	hi := func(s string) int {
		if i+120 < len(s) {
			return i + 120
		}
		return len(s)
	}
	return fmt.Sprintf("first difference at byte %d: reference …%q / this run …%q", i, a[lo:hi(a)], b[lo:hi(b)])
}

func emit(v any) {
	b, _ := json.Marshal(v)
	fmt.Println(string(b))
}

func fail(err error) {
	fmt.Fprintln(os.Stderr, "hgen:", err)
	os.Exit(2)
}
