// Command hgen runs the code generators as libraries several times inside ONE process
// (the binaries `generator` / `proto_generator` are one-shot): a sequence of generations,
// each with one configuration variant and one map-order mode, e.g.
//
//	-seq a,a,a -modes canon,canon,rand:7     the same configuration three times
//	-seq b,c,a -modes rand:3,canon,canon     other configurations first, then a
//
// The output of generation i is written to <out>/<i>.txt (or <i>.err). The driver compares
// every output with the output the same variant gives when it is the only generation of a
// fresh process: whatever a process generated before (package-level tables, caches, name
// registries) must not change what it generates next. It is compiled inside the
// instrumented scratch copy.
package main

import (
	"crypto/sha256"
	"encoding/json"
	"flag"
	"fmt"
	"os"
	"path/filepath"
	"sort"
	"strconv"
	"strings"

	"github.com/openconfig/ygot/genutil"
	"github.com/openconfig/ygot/gogen"
	"github.com/openconfig/ygot/protogen"
	"github.com/openconfig/ygot/ygen"
	"github.com/openconfig/ygot/ypathgen"
	"verifsim/simrt"
)

// Variants lists the configuration variants of a tool. Variant "a" is the configuration the
// fresh-process legs of the check use as well; the others differ from it in the options a
// process-level cache could forget to key on (package names and suffixes, compression, name
// shortening, union style, message nesting ...).
var Variants = map[string][]string{"go": {"a", "b", "c"}, "path": {"a", "b", "c", "d"}, "proto": {"a", "b", "c"}}

func generate(tool, variant string, compress bool, files, inc []string) (func() string, error) {
	switch variant {
	case "b":
		compress = !compress
	}
	cb, err := genutil.TranslateToCompressBehaviour(compress, false, false)
	if err != nil {
		return nil, err
	}
	switch tool {
	case "go":
		tr := ygen.TransformationOpts{CompressBehaviour: cb, GenerateFakeRoot: true, FakeRootName: "device", EnumerationsUseUnderscores: true,
			ShortenEnumLeafNames: true, UseDefiningModuleForTypedefEnumNames: true}
		g := gogen.GoOpts{PackageName: "vout", GenerateJSONSchema: true, GenerateSimpleUnions: true, GenerateGetters: true, GenerateRenameMethod: true,
			GenerateAppendMethod: true, GenerateDeleteMethod: true, GenerateLeafGetters: true, GeneratePopulateDefault: true, AddAnnotationFields: true,
			AnnotationPrefix: gogen.DefaultAnnotationPrefix, YgotImportPath: genutil.GoDefaultYgotImportPath, YtypesImportPath: genutil.GoDefaultYtypesImportPath,
			GoyangImportPath: genutil.GoDefaultGoyangImportPath, ValidateFunctionName: "Validate", AppendEnumSuffixForSimpleUnionEnums: true, IncludeModelData: true}
		switch variant {
		case "b":
			tr.FakeRootName = "root"
			tr.ShortenEnumLeafNames = false
			tr.EnumerationsUseUnderscores = false
			tr.UseDefiningModuleForTypedefEnumNames = false
			g.PackageName = "other"
			g.GenerateSimpleUnions = false
			g.AppendEnumSuffixForSimpleUnionEnums = false
			g.ValidateFunctionName = "ΛValidate"
			g.SchemaVarName = "otherSchema"
		case "c":
			tr.SkipEnumDeduplication = true
			tr.ExcludeState = compress
			g.PackageName = "third"
			g.GenerateOrderedListsAsUnorderedMaps = true
			g.IgnoreShadowSchemaPaths = compress
			g.GenerateLeafSetters = true
			g.AddYangPresence = true
			g.IncludeDescriptions = true
		}
		cg := gogen.New("hgen", ygen.IROptions{TransformationOptions: tr, AppendEnumSuffixForSimpleUnionEnums: g.AppendEnumSuffixForSimpleUnionEnums}, g)
		out, errs := cg.Generate(files, inc)
		if errs != nil {
			return nil, fmt.Errorf("%v", errs)
		}
		return func() string {
			var b strings.Builder
			b.WriteString(out.CommonHeader + out.OneOffHeader)
			for _, s := range out.Structs {
				b.WriteString(s.String())
			}
			b.WriteString(strings.Join(out.Enums, "\n") + out.EnumMap + out.EnumTypeMap + out.JSONSchemaCode + string(out.RawJSONSchema))
			return b.String()
		}, nil
	case "path":
		pcg := &ypathgen.GenConfig{PackageName: "vout", GoImports: ypathgen.GoImports{SchemaStructPkgPath: "", YgotImportPath: genutil.GoDefaultYgotImportPath},
			FakeRootName: "device", PathStructSuffix: "Path", GeneratingBinary: "hgen", GenerateWildcardPaths: true, ShortenEnumLeafNames: true,
			UseDefiningModuleForTypedefEnumNames: true, AppendEnumSuffixForSimpleUnionEnums: true}
		switch variant {
		case "b":
			pcg.PackageName = "other"
			pcg.FakeRootName = "root"
			pcg.PathStructSuffix = "P"
			pcg.SimplifyWildcardPaths = true
			pcg.ShortenEnumLeafNames = false
		case "c":
			pcg.SplitByModule = true
			pcg.PackageSuffix = "path"
			pcg.BaseImportPath = "example.com/verif/out"
			pcg.GoImports.SchemaStructPkgPath = "example.com/verif/out/structs"
			pcg.PackageName = "device"
		case "d":
			pcg.SplitByModule = true
			pcg.PackageSuffix = "pathstructs"
			pcg.TrimPackagePrefix = "verif"
			pcg.BaseImportPath = "example.com/verif/other"
			pcg.GoImports.SchemaStructPkgPath = "example.com/verif/out/structs"
			pcg.PackageName = "device"
		}
		if compress {
			pcg.PreferOperationalState = variant == "b"
		}
		out, _, errs := pcg.GeneratePathCode(files, inc)
		if errs != nil {
			return nil, fmt.Errorf("%v", errs)
		}
		return func() string {
			var names []string
			for n := range out {
				names = append(names, n)
			}
			sort.Strings(names)
			var b strings.Builder
			for _, n := range names {
				b.WriteString("== " + n + "\n" + out[n].String())
			}
			return b.String()
		}, nil
	case "proto":
		tr := ygen.TransformationOpts{CompressBehaviour: cb, GenerateFakeRoot: true, FakeRootName: "device"}
		po := protogen.ProtoOpts{PackageName: "vout", BaseImportPath: "example.com/verif", YwrapperPath: protogen.DefaultYwrapperPath, YextPath: protogen.DefaultYextPath,
			AnnotateSchemaPaths: true, AnnotateEnumNames: true, NestedMessages: false, EnumPackageName: "enums", GoPackageBase: "example.com/verif/out"}
		switch variant {
		case "b":
			po.PackageName = "other"
			po.EnumPackageName = "e"
			po.BaseImportPath = "example.com/other"
			po.GoPackageBase = ""
			po.AnnotateEnumNames = false
		case "c":
			po.NestedMessages = true
			po.AnnotateSchemaPaths = false
			tr.FakeRootName = "root"
		}
		cg := protogen.New("hgen", ygen.IROptions{TransformationOptions: tr, NestedDirectories: po.NestedMessages, AbsoluteMapPaths: true, AppendEnumSuffixForSimpleUnionEnums: true}, po)
		out, errs := cg.Generate(files, inc)
		if errs != nil {
			return nil, fmt.Errorf("%v", errs)
		}
		return func() string {
			var names []string
			for n := range out.Packages {
				names = append(names, n)
			}
			sort.Strings(names)
			var b strings.Builder
			for _, n := range names {
				p := out.Packages[n]
				b.WriteString("== " + strings.Join(p.FilePath, "/") + "\n" + p.Header + "\n" + strings.Join(p.Enums, "\n") + "\n" + strings.Join(p.Messages, "\n"))
			}
			return b.String()
		}, nil
	}
	return nil, fmt.Errorf("unknown tool %q", tool)
}

type genResult struct {
	Variant string `json:"variant"`
	Mode    string `json:"mode"`
	OK      bool   `json:"ok"`
	Err     string `json:"err,omitempty"`
	Bytes   int    `json:"bytes"`
	SHA     string `json:"sha,omitempty"`
	Dev     int    `json:"deviating_sites"`
	// ChangedLater: the result of this generation, kept by the caller, read differently once
	// the later generations of the process had run (a result aliasing a buffer that is reused)
	ChangedLater bool `json:"changed_later,omitempty"`
}

func main() {
	tool := flag.String("tool", "go", "go|path|proto")
	compress := flag.Bool("compress", false, "")
	paths := flag.String("path", "", "comma separated include paths")
	seq := flag.String("seq", "a", "comma separated configuration variants, one generation each")
	modes := flag.String("modes", "canon", "comma separated map-order modes (canon | rev | rand:<seed>), one per generation")
	outdir := flag.String("out", "", "directory for the outputs")
	listVariants := flag.Bool("variants", false, "print the variants of -tool and exit")
	flag.Parse()
	if *listVariants {
		emit(Variants[*tool])
		return
	}
	files := flag.Args()
	var inc []string
	for _, p := range strings.Split(*paths, ",") {
		if p != "" {
			inc = append(inc, p+"/...")
		}
	}
	vs := strings.Split(*seq, ",")
	ms := strings.Split(*modes, ",")
	if len(ms) != len(vs) || *outdir == "" {
		fail(fmt.Errorf("-seq and -modes must have the same length and -out is required"))
	}
	if err := os.MkdirAll(*outdir, 0o755); err != nil {
		fail(err)
	}
	var res []genResult
	var renders []func() string
	for i, v := range vs {
		switch {
		case ms[i] == "canon":
			simrt.Configure(simrt.MapCanon, 0, nil)
		case ms[i] == "rev":
			simrt.Configure(simrt.MapReverse, 0, nil)
		case strings.HasPrefix(ms[i], "rand:"):
			s, err := strconv.ParseUint(ms[i][5:], 10, 64)
			if err != nil {
				fail(err)
			}
			simrt.Configure(simrt.MapRandom, s, nil)
		default:
			fail(fmt.Errorf("unknown mode %q", ms[i]))
		}
		simrt.ResetStats()
		render, err := generate(*tool, v, *compress, files, inc)
		r := genResult{Variant: v, Mode: ms[i], OK: err == nil, Dev: len(simrt.Main().Deviated)}
		if err != nil {
			r.Err = err.Error()
			if len(r.Err) > 300 {
				r.Err = r.Err[:300]
			}
			os.WriteFile(filepath.Join(*outdir, fmt.Sprintf("%d.err", i)), []byte(err.Error()), 0o644)
			renders = append(renders, nil)
		} else {
			out := render()
			r.Bytes = len(out)
			r.SHA = fmt.Sprintf("%x", sha256.Sum256([]byte(out)))
			if err := os.WriteFile(filepath.Join(*outdir, fmt.Sprintf("%d.txt", i)), []byte(out), 0o644); err != nil {
				fail(err)
			}
			renders = append(renders, render)
		}
		res = append(res, r)
	}
	// the caller still holds every generation's result: render them again now that all
	// generations have run
	simrt.Configure(simrt.MapCanon, 0, nil)
	for i, render := range renders {
		if render == nil {
			continue
		}
		if again := render(); fmt.Sprintf("%x", sha256.Sum256([]byte(again))) != res[i].SHA {
			res[i].ChangedLater = true
			os.WriteFile(filepath.Join(*outdir, fmt.Sprintf("%d.later.txt", i)), []byte(again), 0o644)
		}
	}
	emit(map[string]any{"tool": *tool, "compress": *compress, "gens": res})
}

func emit(v any) {
	b, _ := json.Marshal(v)
	fmt.Println(string(b))
}

func fail(err error) {
	fmt.Fprintln(os.Stderr, "hgen:", err)
	os.Exit(2)
}
